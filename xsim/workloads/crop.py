"""crop_history: sequential histories over a crop, each step by a fresh
simulated process (actor) that knows only (name, parent_dir) - or by the
long-lived object a notebook user would keep.  Profiles: C04, C08, C09."""
import os
import pickle
import traceback

from .. import calllog, interpose, simexec
from ..model import compare_nested, plain, short
from ..world import Violation, HarnessError, SimCrash
from . import cropgen as G
from . import farmers as F


def xyz_site(exc):
    """innermost xyzpy frame of an exception -> 'ExcType@function'"""
    fn = "?"
    for fs in traceback.extract_tb(exc.__traceback__):
        if "/xyzpy/" in fs.filename:
            fn = fs.name
    return "{}@{}".format(type(exc).__name__, fn)


class CropMachine:
    NAME = "crp"

    def __init__(self, ctx, kinds=None, max_n=40, farmer_roles=None, max_batches=None,
                 world_cfg=None, allow_cases=True, ext_choice=True, name_choice=False,
                 arg_pool=None, farmer_ctor_choice=False):
        import xyzpy  # noqa - after interpose.install()

        self.ctx = ctx
        self.tape = ctx.tape
        self.allow_farmer_ctor = farmer_ctor_choice
        t = self.tape
        simexec.install()
        cfg = {
            "bufsize": t.weighted([(8192, 2), (64, 1), (16, 1)], "bufsize"),
            "split_writes": t.flag(1, 3, "split"),
            "permute_listing": t.flag(1, 2, "permute"),
        }
        cfg.update(world_cfg or {})
        self.w = ctx.world(cfg)
        self.root = self.w.root
        if name_choice:
            # a crop may be called anything a directory may be called - also what glob
            # would read as a pattern
            self.NAME = t.weighted([("crp", 3), ("run[1]", 1), ("v2*", 1), ("what?", 1)], "crop-name")
            if self.NAME != "crp":
                ctx.t("crop name", self.NAME)
        self.location = os.path.join(self.root, ".xyz-" + self.NAME)
        simexec.bind(t, ctx.stats, default={
            "boundary": t.pick(["process", "thread"], "ex-boundary")})
        sc = G.Scenario()
        sc.sweep = G.gen_sweep(t, max_n=max_n, kinds=kinds, allow_cases=allow_cases,
                               arg_pool=arg_pool)
        sc.kind = sc.sweep.kind
        sc.N = sc.sweep.n()
        sc.batching = G.gen_batching(t, sc.N)
        if max_batches and G.expected_num_batches(sc.N, sc.batching) > max_batches:
            sc.batching = {"how": "num_batches", "site": sc.batching["site"],
                           "value": t.int_between(1, max_batches, "nb-cap")}
        sc.shuffle = G.gen_shuffle(t)
        if sc.sweep.cases is None:
            sc.api = "sow_combos"
        elif not sc.sweep.combos:
            sc.api = t.pick(["sow_cases", "sow_combos"], "api")
        else:
            sc.api = t.pick(["sow_combos", "sow_cases"], "api")
        if sc.api == "sow_cases":
            sc.shuffle["site"] = "ctor"  # sow_cases has no shuffle argument
        sc.spell = t.pick(["dict", "pairs"], "spell")
        sc.case_spell = t.pick(["dicts", "tuples"], "case-spell")
        # farmer-backed crop?
        role = t.pick(farmer_roles, "farmer-role") if farmer_roles else None
        self.fspec = None
        if role is not None:
            self.fspec = F.gen_farmer(t, role, sc.sweep, self.root, ext_choice=ext_choice)
            # Runner.Crop / Harvester.Crop take no shuffle argument; xyzpy.Crop(farmer=...) does
            self.farmer_via_ctor = bool(getattr(self, "allow_farmer_ctor", False)) and \
                t.flag(1, 3, "crop-built-with-farmer-argument")
            if sc.shuffle["site"] == "ctor" and not self.farmer_via_ctor:
                sc.shuffle = {"value": sc.shuffle["value"] if sc.api == "sow_combos" else False,
                              "site": "sow"}
        sc.farmer = self.fspec.describe() if self.fspec else None
        self.sc = sc
        self.sort_combos = sc.api == "sow_combos"
        self.argnames = sc.sweep.case_args + [a for a, _ in sc.sweep.combos] \
            + list(sc.sweep.constants)
        self.fn = calllog.make_fn(sc.kind, self.argnames)
        self.fn_args = tuple(sc.sweep.case_args + [a for a, _ in sc.sweep.combos])
        self.long_crop = None
        self.farmer_obj = None
        self.nactors = 0
        self.batches = None  # {id: [kwargs]} read from disk after sow
        ctx.t("scenario", sc.describe())

    # ------------------------------------------------------------ plumbing
    def actor(self, role, kill_at=None):
        self.nactors += 1
        return self.w.actor("{}#{}".format(role, self.nactors), kill_at=kill_at)

    def call(self, role, f, must_succeed=True, oracle="op-raised"):
        """Run f() as a simulated process.  -> (value, exception)"""
        val = exc = None
        with self.actor(role) as a:
            try:
                val = f()
            except Exception as e:
                # see World._ActorCtx.__exit__: never keep the unwound frames' locals
                traceback.clear_frames(e.__traceback__)
                exc = e
        if a.dead:
            raise HarnessError("unexpected kill in fault-free call")
        if exc is not None and isinstance(exc, (Violation, HarnessError)):
            raise exc
        if exc is not None and must_succeed:
            raise Violation(
                "{}:{}".format(oracle, role), "{} raised {}: {}".format(
                    role, type(exc).__name__, short(str(exc), 300)),
                site=xyz_site(exc),
                details={"traceback": traceback.format_exception(
                    type(exc), exc, exc.__traceback__)[-6:]})
        return val, exc

    def ctor_kwargs(self):
        sc = self.sc
        kw = {}
        if sc.batching["how"] != "none" and sc.batching["site"] == "ctor":
            kw[sc.batching["how"]] = sc.batching["value"]
        if sc.shuffle["site"] == "ctor":
            kw["shuffle"] = sc.shuffle["value"]
        return kw

    def new_sow_crop(self):
        import xyzpy

        if self.fspec is not None:
            # a new session: the user rebuilds the farmer and asks it for a crop
            # (or, reuse_farmer: the same session asks its farmer for another crop)
            if not (getattr(self, "reuse_farmer", False) and self.farmer_obj is not None):
                self.farmer_obj = self.fspec.build(self.fn)
            kw = self.ctor_kwargs()
            if getattr(self, "farmer_via_ctor", False):
                return xyzpy.Crop(farmer=self.farmer_obj, name=self.NAME, parent_dir=self.root, **kw)
            kw.pop("shuffle", None)
            return self.farmer_obj.Crop(name=self.NAME, parent_dir=self.root, **kw)
        return xyzpy.Crop(fn=self.fn, name=self.NAME, parent_dir=self.root,
                          **self.ctor_kwargs())

    def sow_constants(self):
        c = dict(self.sc.sweep.constants)
        if self.fspec is not None:
            for k in list(self.fspec.runner_constants) + list(self.fspec.resources):
                c.pop(k, None)
        # per-sow overrides of a runner constant / resource (C06): "repeated
        # arguments take precedence over stored constants but for this run only"
        c.update(getattr(self, "sow_overrides", {}))
        return c

    def load_crop(self):
        import xyzpy

        return xyzpy.Crop(name=self.NAME, parent_dir=self.root)

    def crop_for(self, reuse_label="reuse"):
        """the long-lived object (1 in 4) or a freshly loaded one"""
        if self.long_crop is not None and self.tape.flag(1, 4, reuse_label):
            self.ctx.stats["reused-object"] += 1
            return self.long_crop, "long"
        return None, "fresh"

    def do_sow(self, crop):
        sc = self.sc
        sw = sc.sweep
        kw = {}
        if sc.batching["how"] != "none" and sc.batching["site"] == "sow":
            kw[sc.batching["how"]] = sc.batching["value"]
        if sc.spell == "dict":
            combos = {a: G.spell_values(self.tape, v) for a, v in sw.combos}
        else:
            combos = tuple((a, G.spell_values(self.tape, v, as_tuple=True)) for a, v in sw.combos)
        constants = self.sow_constants() or None
        if sc.api == "sow_combos":
            if sc.shuffle["site"] == "sow":
                kw["shuffle"] = sc.shuffle["value"]
            cases = [dict(c) for c in sw.cases] if sw.cases else None
            crop.sow_combos(combos or None, cases=cases, constants=constants,
                            verbosity=0, **kw)
        else:
            fn_args = tuple(sw.case_args)
            if sc.case_spell == "dicts":
                cases = [dict(c) for c in sw.cases]
            else:
                cases = [tuple(c[a] for a in fn_args) for c in sw.cases]
            if self.tape.flag(1, 4, "cases-as-iterator"):
                cases = iter(cases)  # zip(...) / a generator: documented as 'iterable'
            crop.sow_cases(fn_args, cases, combos=combos or None,
                           constants=constants, verbosity=0, **kw)

    def sow(self):
        crop = self.new_sow_crop()
        self.long_crop = crop
        self.sow_crop = crop  # the object that was constructed with the sow-time arguments
        self.ctx.t("sow", self.sc.api, self.ctor_kwargs())
        self.call("sower", lambda: self.do_sow(crop), oracle="sow-raised")
        self.batches = G.read_batch_files(self.location)
        self.B = len(self.batches)
        if self.B == 0:
            raise Violation("sow-wrote-no-batches", "no batch files after sow")

    def sow_samples(self, n):
        """Sampler crops: sow n random samples drawn (np.random, seeded from the
        tape) from the sweep's grid values."""
        import numpy as np

        seed = self.tape.choose(1000, "np-seed")
        crop = self.new_sow_crop()
        self.long_crop = self.sow_crop = crop
        combos = {a: list(v) for a, v in self.sc.sweep.combos}
        self.ctx.t("sow_samples", n, "np-seed", seed)

        def f():
            np.random.seed(seed)
            crop.sow_samples(n, combos=combos, constants=self.sow_constants() or None,
                             verbosity=0)

        self.call("sower", f, oracle="sow-raised")
        self.batches = G.read_batch_files(self.location)
        self.B = len(self.batches)
        self.sample_kwargs = [kw for b in sorted(self.batches) for kw in self.batches[b]]
        if len(self.sample_kwargs) != n:
            raise Violation("sow_samples-count", "sowed {} cases for n={}".format(
                len(self.sample_kwargs), n))
        allowed = {a: set(plain(x) for x in v) for a, v in self.sc.sweep.combos}
        for kw in self.sample_kwargs:
            for a, vals in allowed.items():
                if plain(kw[a]) not in vals:
                    raise Violation("sample-outside-choices",
                                    "{}={!r} not among {}".format(a, kw[a], sorted(vals, key=repr)))

    # --------------------------------------------------------- grow ops
    def gen_workers(self, label):
        return self.tape.weighted([(None, 3), (1, 1), (2, 1), (3, 1)], label)

    def grow_op(self, ids=None, how=None, must_succeed=True):
        """One tape-chosen grow operation.  Returns (how, ids, exception)."""
        from xyzpy.gen.cropping import grow as xgrow

        t = self.tape
        allids = list(range(1, self.B + 1))
        how = how or t.weighted(
            [("grow_fn", 3), ("crop_grow", 3), ("grow_missing", 2)], "grow-how")
        nw = self.gen_workers("grow-nw")
        kw = {} if nw is None else {"num_workers": nw}
        crop, which = self.crop_for()
        if how == "grow_fn":
            i = ids[0] if ids else t.pick(allids, "grow-id")
            ids = [i]

            def f():
                c = crop if crop is not None else self.load_crop()
                xgrow(i, c, verbosity=0, **kw)
        elif how == "crop_grow":
            if ids is None:
                n = t.int_between(1, min(self.B, 4), "grow-n")
                ids = t.perm(allids, "grow-ids")[:n]
            arg = ids[0] if (len(ids) == 1 and t.flag(1, 2, "grow-int")) else tuple(ids)
            if isinstance(arg, tuple):
                form = t.choose(5, "grow-ids-as")
                if form == 3:
                    arg = list(arg)
                elif form == 4:
                    arg = iter(arg)  # a one-shot iterator (generator, reversed(...), map(...))

            def f():
                c = crop if crop is not None else self.load_crop()
                c.grow(arg, **kw)
        else:
            ids = None

            def f():
                c = crop if crop is not None else self.load_crop()
                c.grow_missing(**kw)
        self.ctx.t("grow", how, ids, kw, which)
        _, exc = self.call("grower", f, must_succeed=must_succeed, oracle="grow-raised")
        return how, ids, exc

    def reap(self, must_succeed=True, **opts):
        crop, which = self.crop_for("reap-reuse")
        self.ctx.t("reap", opts, which)

        def f():
            c = crop if crop is not None else self.load_crop()
            return c.reap(**opts)

        return self.call("reaper", f, must_succeed=must_succeed, oracle="reap-raised")


# ------------------------------------------------------------------- C04


def concurrent_grow(m):
    """'Parallel growing': 2-3 worker processes, each doing one tape-chosen grow
    call (distinct batches, overlapping ones, the same batch twice, grow_missing),
    their file operations interleaved by the seeded scheduler.  No worker may fail.
    Returns the set of batch ids that are certainly grown afterwards."""
    from xyzpy.gen.cropping import grow as xgrow
    from ..sched import Scheduler

    t = m.tape
    allids = list(range(1, m.B + 1))
    plans = []
    for _ in range(t.int_between(2, 3, "par-growers")):
        how = t.weighted([("crop_grow", 3), ("grow_fn", 2), ("grow_missing", 1)], "par-how")
        if how == "grow_fn":
            ids = [t.pick(allids, "par-id")]
        elif how == "crop_grow":
            ids = t.perm(allids, "par-ids")[: t.int_between(1, min(m.B, 3), "par-n")]
        else:
            ids = None
        plans.append((how, ids))
    policy = t.pick(["uniform", "pct", "conflict"], "par-policy")
    m.ctx.t("concurrent grow", plans, policy)
    sched = Scheduler(m.w, policy=policy)
    actors = []
    for gi, (how, ids) in enumerate(plans):
        def f(how=how, ids=ids):
            c = m.load_crop()
            if how == "grow_fn":
                xgrow(ids[0], c, verbosity=0)
            elif how == "crop_grow":
                c.grow(tuple(ids))
            else:
                c.grow_missing()

        actors.append(sched.spawn("grower-par{}".format(gi + 1), f))
    sched.run()
    if m.w.aborting:
        raise HarnessError("concurrent grow hit the step cap")
    m.ctx.stats["concurrent-grow-phases"] += 1
    m.ctx.stats["concurrent-grow-switches"] += sched.switches
    for a in actors:
        if a.exc is not None:
            raise Violation("concurrent-grower-raised", "{} of {} raised {}: {}".format(
                a.name, plans, type(a.exc).__name__, short(str(a.exc), 200)), site=xyz_site(a.exc))
    if any(how == "grow_missing" for how, _ in plans):
        # whatever it found unfinished when it looked it grew itself
        return set(allids)
    return set(i for _, ids in plans for i in ids)


def run_c04(ctx):
    """sow / grow (any order, grouping, repetition, parallel) / reap == direct"""
    deep = ctx.params.get("tier") == "thorough"
    # (argument names: also ones the library uses for its own parameters)
    m = CropMachine(ctx, max_n=64 if deep else 40, kinds=G.KINDS + [("nones", 1)],
                    arg_pool=G.ARG_POOL + ["self", "fn", "crop"])
    t = ctx.tape
    m.sow()
    sw = m.sc.sweep
    # invariant: the sown batches hold every requested setting exactly once
    sown = sorted((calllog.key(kw) for b in m.batches.values() for kw in b), key=repr)
    if sown != sw.expected_calls():
        raise Violation("sown-settings-differ",
                        "batch files hold {} settings, expected {}: {} vs {}".format(
                            len(sown), sw.n(), short(sown, 200), short(sw.expected_calls(), 200)))
    grown = set()
    nops = 0
    regrown = 0
    while nops < (20 if deep else 12):
        missing = [i for i in range(1, m.B + 1) if i not in grown]
        t.mark()
        # 0 = stop generating
        if not t.flag(5, 6, "more-grows") or (not missing and not t.flag(1, 3, "regrow")):
            break
        if t.flag(1, 6, "concurrent-grow"):
            done = concurrent_grow(m)
            nops += 1
            regrown += len(done & grown)
            grown |= done
            continue
        how, ids, _ = m.grow_op()
        nops += 1
        if ids is None:
            grown |= set(missing)
        else:
            regrown += len(set(ids) & grown)
            grown |= set(ids)
    if len(grown) < m.B:
        how, ids, _ = m.grow_op(how="grow_missing")
        nops += 1
    calls_before_reap = len(calllog.LOG)
    res, _ = m.reap()
    if len(calllog.LOG) != calls_before_reap:
        raise Violation("reap-called-fn", "reaping evaluated the function again")
    bad = compare_nested(res, sw, m.sort_combos)
    if bad is not None:
        raise Violation("reap-differs-from-direct/" + bad[0], bad[1],
                        details={"scenario": m.sc.describe()})
    if G.rexists(m.location):
        ctx.stats["crop-left-after-reap"] += 1
    ctx.stats["regrown"] += regrown
    ctx.stats["grow-ops"] += nops
    ctx.nontrivial = m.B > 1 and nops >= 1
    ctx.key = repr((m.sc.N, m.B, m.sc.batching, m.sc.shuffle, m.sc.api, m.sc.kind,
                    [x for x in ctx.trace if x.startswith("grow")]))


# ------------------------------------------------------------------- C08


class ProgressModel:
    def __init__(self, m):
        self.m = m
        self.finished = set()
        self.all = set(range(1, m.B + 1))
        self.keys = {b: [calllog.key(kw) for kw in kws] for b, kws in m.batches.items()}

    def poisoned(self, b):
        return any(k in calllog.POISON for k in self.keys[b])

    def completed_in(self, log_slice):
        called = set(k for _, k in log_slice)
        return {b for b in self.all
                if all(k in called for k in self.keys[b]) and not self.poisoned(b)}


def query_progress(m, model, where):
    """Ask all progress queries of a freshly loaded Crop and of the long-lived
    object; every answer must equal the model."""
    B = m.B
    exp_missing = tuple(sorted(model.all - model.finished))
    exp = (B, len(model.finished), exp_missing, model.finished == model.all)
    kinds_ = ["fresh", "long"]
    if m.fspec is None and m.tape.flag(1, 4, "query-by-rerun-object"):
        kinds_.append("rerun")  # the sowing script run again: same constructor arguments
    for which in kinds_:
        if which == "long" and m.long_crop is None:
            continue

        def f():
            c = m.load_crop() if which == "fresh" else (
                m.long_crop if which == "long" else m.new_sow_crop())
            return (c.num_sown_batches, c.num_results, tuple(c.missing_results()),
                    bool(c.is_ready_to_reap()), str(c))

        (got, _) = m.call("poller", f, oracle="progress-query-raised")
        m.w.note("progress", got[:4])
        if tuple(got[:4]) != exp:
            names = ("num_sown_batches", "num_results", "missing_results", "is_ready_to_reap")
            bad = [n for n, g, e in zip(names, got[:4], exp) if g != e]
            raise Violation(
                "progress-mismatch/" + bad[0],
                "{} ({} object): reported (sown, results, missing, ready) = {} but really {}".format(
                    where, which, got[:4], exp))
        want = "{} / {} batches".format(len(model.finished), B)
        if want not in got[4]:
            raise Violation("progress-mismatch/str",
                            "{}: str(crop) lacks '{}': {}".format(where, want, short(got[4], 200)))


def checked_grow(m, model, how=None, ids=None, io_error=False):
    """A grow op with the C08 oracles around it.  io_error: the first kernel
    write of a result during this grow fails with ENOSPC (disk full) - the batch
    being written must not count as finished, whatever is left behind."""
    import re
    from ..world import enospc

    t = m.tape
    missing = sorted(model.all - model.finished)
    before = G.snapshot_tree(m.location)
    log0 = len(calllog.LOG)
    if how is None:
        how = t.weighted([("grow_fn", 3), ("crop_grow", 3), ("grow_missing", 2)], "grow-how")
    # what will be targeted (needed to know whether failure is legitimate)
    if how == "grow_fn":
        ids = ids or [t.pick(sorted(model.all), "grow-id")]
    elif how == "crop_grow" and ids is None:
        n = t.int_between(1, min(m.B, 4), "grow-n")
        ids = t.perm(sorted(model.all), "grow-ids")[:n]
    targets = missing if how == "grow_missing" else list(ids)
    may_fail = any(model.poisoned(b) for b in targets)
    if how == "grow_missing" and not missing:
        may_fail = True  # growing nothing: whatever happens, nothing may change
    failed_write = set()
    if io_error:
        armed = {"on": True}
        resdir = os.path.join(m.location, "results")

        def hook(world, actor, kind_, path, detail):
            if armed["on"] and kind_ == "write" and isinstance(path, str) \
                    and os.path.dirname(path) == resdir:
                mt = re.search(r"xyz-result-(\d+)\.jbdmp", os.path.basename(path))
                if mt:
                    armed["on"] = False
                    failed_write.add(int(mt.group(1)))
                    return enospc()
            return None

        m.w.fault_hook = hook
        may_fail = True
    try:
        how, ids, exc = m.grow_op(ids=ids, how=how, must_succeed=not may_fail)
    finally:
        m.w.fault_hook = None
    log_slice = calllog.LOG[log0:]
    completed = (model.completed_in(log_slice) & set(targets)) - failed_write
    if failed_write:
        m.ctx.stats["grow-hit-disk-full"] += 1
    after = G.snapshot_tree(m.location)
    created, removed, modified = G.diff_trees(before, after)
    touched = set(created) | set(modified)
    allowed = {"results/xyz-result-{}.jbdmp".format(b) for b in completed}
    # what a failed write may leave behind: temporary debris next to the results,
    # whatever it is called - but never a file named like a result
    if failed_write:
        touched = {p for p in touched
                   if not (p.startswith("results/")
                           and not re.fullmatch(r"results/xyz-result-\d+\.jbdmp", p))}
    extra = touched - allowed
    if extra or removed:
        raise Violation(
            "grow-touched-other-files",
            "grow {} {} completed batches {} but created/modified {} and removed {}".format(
                how, ids, sorted(completed), sorted(extra), removed))
    lost = [p for p in allowed if p not in (after or {})]
    if lost:
        raise Violation("grow-completed-without-result",
                        "batches {} ran to completion but {} missing".format(sorted(completed), lost))
    # never evaluates settings outside the targeted batches
    target_keys = set(k for b in targets for k in model.keys[b])
    stray = [k for _, k in log_slice if k not in target_keys]
    if stray:
        raise Violation("grow-evaluated-untargeted-settings",
                        "{} {} (targets {}) evaluated {}".format(how, ids, targets, short(stray, 200)))
    # a grow call that returns normally has grown everything it was asked to
    if exc is None and not io_error:
        left = sorted(set(targets) - completed)
        if left:
            raise Violation("grow-returned-without-growing",
                            "{} {} returned normally but batches {} were not evaluated to the end".format(
                                how, ids, left))
    model.finished |= completed
    m.ctx.stats["grow-failed-legit"] += int(exc is not None)
    if isinstance(exc, calllog.FnError):
        m.w.fired["fn-raises"] += 1
    return how, targets, exc


def corrupt_bytes(t, good, nbatch):
    how = t.pick(["truncate-half", "empty", "wronglen", "truncate-1"], "corrupt-how")
    if how == "truncate-half":
        return how, good[: max(1, len(good) // 2)]
    if how == "empty":
        return how, b""
    if how == "truncate-1":
        return how, good[:-1]
    obj = pickle.loads(good)
    return how, pickle.dumps(tuple(obj) + (obj[0],))


def run_c08(ctx):
    """reported progress == batches that really finished, over histories"""
    deep = ctx.params.get("tier") == "thorough"
    m = CropMachine(ctx, max_n=24, max_batches=8, name_choice=True,
                    world_cfg={"mtime_granularity": "tape"})
    t = ctx.tape
    m.sow()
    model = ProgressModel(m)
    query_progress(m, model, "after sow")
    nops = 0
    kinds_done = set()
    while nops < (18 if deep else 12):
        t.mark()
        if not t.flag(7, 8, "more-ops"):
            break
        nops += 1
        op = t.weighted([("grow", 6), ("poison", 2), ("resow", 2), ("delete", 2),
                         ("corrupt", 2), ("check_bad", 1), ("reload", 1), ("unpoison", 1)],
                        "op")
        kinds_done.add(op)
        if op == "grow":
            checked_grow(m, model, io_error=t.flag(1, 8, "disk-full-during-grow"))
        elif op == "poison":
            b = t.pick(sorted(model.all), "poison-batch")
            k = t.pick(model.keys[b], "poison-setting")
            calllog.POISON.add(k)
            # what a failing user function raises is its business - also exceptions that
            # iteration protocols give a meaning to
            exc_name = t.weighted([("FnError", 3), ("StopIteration", 1), ("KeyError", 1), ("ValueError", 1)],
                                  "poison-exc")
            calllog.POISON_EXC[0] = {"FnError": None, "StopIteration": StopIteration,
                                     "KeyError": KeyError, "ValueError": ValueError}[exc_name]
            ctx.t("poison", b, k, exc_name)
            continue
        elif op == "unpoison":
            calllog.POISON.clear()
            ctx.t("unpoison")
            continue
        elif op == "resow":
            before = G.snapshot_tree(os.path.join(m.location, "results"))
            # "the same call again": either on the very object that sowed, or on a
            # new object constructed with the same arguments (a new session)
            same_obj = t.flag(1, 3, "resow-same-object")
            crop = m.sow_crop if same_obj else m.new_sow_crop()
            ctx.t("resow", "same-object" if same_obj else "new-object")
            m.call("sower", lambda: m.do_sow(crop), oracle="resow-raised")
            m.long_crop = m.sow_crop = crop
            after = G.snapshot_tree(os.path.join(m.location, "results"))
            if before != after:
                raise Violation("resow-changed-results",
                                "re-sowing the same shape changed results/: {}".format(
                                    G.diff_trees(before, after)))
            if G.read_batch_files(m.location).keys() != m.batches.keys():
                raise Violation("resow-changed-batches", "batch ids changed on identical re-sow")
        elif op == "delete":
            if not model.finished:
                continue
            b = t.pick(sorted(model.finished), "delete-id")
            ctx.t("delete_result", b)
            m.w.fired["delete-result"] += 1
            with m.actor("external"):
                os.remove(os.path.join(m.location, "results", "xyz-result-{}.jbdmp".format(b)))
            model.finished.discard(b)
        elif op in ("corrupt", "check_bad"):
            bad = []
            if op == "corrupt" and model.finished:
                b = t.pick(sorted(model.finished), "corrupt-id")
                path = os.path.join(m.location, "results", "xyz-result-{}.jbdmp".format(b))
                with interpose.real.open(path, "rb") as f:
                    good = f.read()
                how, data = corrupt_bytes(t, good, len(m.batches[b]))
                ctx.t("corrupt_result", b, how)
                m.w.fired["corrupt-result:" + how] += 1
                with m.actor("external"):
                    with open(path, "wb") as f:
                        f.write(data)
                bad = [b]
            crop, which = m.crop_for("cb-reuse")
            ctx.t("check_bad", which)

            def f():
                c = crop if crop is not None else m.load_crop()
                return c.check_bad()

            got, _ = m.call("checker", f, oracle="check_bad-raised")
            try:
                got_ids = sorted(int(x) for x in got)
            except (TypeError, ValueError):
                raise Violation("check_bad-wrong-report", "returned {!r}".format(got))
            if got_ids != bad:
                raise Violation("check_bad-wrong-report",
                                "corrupted {} but check_bad reported {!r}".format(bad, got))
            model.finished -= set(bad)
            left = G.result_ids(m.location)
            if left != model.finished:
                raise Violation("check_bad-wrong-removal",
                                "after check_bad results on disk {} expected {}".format(
                                    sorted(left), sorted(model.finished)))
        elif op == "reload":
            ctx.t("reload")
            val, _ = m.call("loader", m.load_crop, oracle="reload-raised")
            m.long_crop = val
        # mostly every operation is followed by the progress queries; sometimes the
        # observers stay silent for a while, so that several changes (e.g. a deletion
        # and a compensating grow, which leave the file counts alone) lie between two
        # queries of the same long-lived object
        if t.flag(1, 3, "no-query-after-op"):
            ctx.stats["ops-without-query"] += 1
            continue
        query_progress(m, model, "after op {} ({})".format(nops, op))
    # growing the missing batches grows exactly those and makes the crop ready
    calllog.POISON.clear()
    missing = sorted(model.all - model.finished)
    log0 = len(calllog.LOG)
    how, targets, exc = checked_grow(m, model, how="grow_missing")
    if missing:
        called = sorted(k for _, k in calllog.LOG[log0:])
        want = sorted(k for b in missing for k in model.keys[b])
        if called != want:
            raise Violation("grow_missing-not-exact",
                            "missing {}: evaluated {} settings, expected exactly {}".format(
                                missing, len(called), len(want)))
    if model.finished != model.all:
        raise Violation("grow_missing-left-missing",
                        "after grow_missing model still misses {}".format(
                            sorted(model.all - model.finished)))
    query_progress(m, model, "after final grow_missing")
    ctx.nontrivial = nops >= 2 and m.B >= 2
    ctx.stats["ops"] += nops
    for k in kinds_done:
        ctx.stats["op-" + k] += 1
    ctx.key = repr((m.B, [x.split(" ")[0:3] for x in ctx.trace[1:]]))


# ------------------------------------------------------------------- C09

VAR_DESC = {
    # kind -> reap_combos_to_ds keyword arguments and output variable names
    "scalar": ({"var_names": "x"}, ["x"]),
    "int": ({"var_names": ["x"]}, ["x"]),
    "tuple2": ({"var_names": ["x", "y"]}, ["x", "y"]),
    "array": ({"var_names": "x", "var_dims": {"x": ["t"]}, "var_coords": {"t": [0, 1, 2]}}, ["x"]),
    "npscalar": ({"var_names": "x"}, ["x"]),
    "complex": ({"var_names": "x"}, ["x"]),
    "ndarray": ({"var_names": "x", "var_dims": {"x": ["t"]}, "var_coords": {"t": [0, 1, 2]}}, ["x"]),
    "intarray": ({"var_names": "x", "var_dims": {"x": ["t"]}, "var_coords": {"t": [0, 1, 2]}}, ["x"]),
    "bool": ({"var_names": "x"}, ["x"]),
    "str": ({"var_names": ("x",)}, ["x"]),
    "dict": ({"var_names": None}, ["u", "v"]),
}


def outputs_of(kind, value):
    """reference value -> {var: value} as it appears in a Dataset/DataFrame"""
    if kind in ("scalar", "int", "bool", "str", "array", "ndarray", "intarray", "npscalar", "complex"):
        return {"x": value}
    if kind == "tuple2":
        return {"x": value[0], "y": value[1]}
    if kind == "dict":
        return dict(value)
    raise HarnessError(kind)


def check_dataset(ds, sweep, sort_combos, finished_locs, kind, what, only_requested=False):
    """Every grid point of ds: exact where finished, missing elsewhere."""
    import itertools
    import numpy as np
    from ..model import same, is_missing

    exp = sweep.expected()
    axes = sweep.axes(sort_combos)
    for a, vals in axes:
        if a not in ds.coords:
            raise Violation(what + "/coord-absent", "dimension {} absent from {}".format(a, list(ds.coords)))
        got = [plain(v) for v in ds.coords[a].values.tolist()]
        if sorted(map(repr, got)) != sorted(map(repr, [plain(v) for v in vals])):
            raise Violation(what + "/coord-values", "coordinate {} = {} expected {}".format(a, got, vals))
    names = [a for a, _ in axes]
    for combo in itertools.product(*[v for _, v in axes]):
        locd = dict(zip(names, combo))
        loc = frozenset((k, plain(v)) for k, v in locd.items())
        point = ds.sel(**locd)
        if loc in exp and (finished_locs is None or loc in finished_locs):
            for var, ev in outputs_of(kind, exp[loc]).items():
                gv = point[var].values
                gv = gv.item() if gv.ndim == 0 else gv
                if not same(gv, ev):
                    raise Violation(what + "/wrong-value",
                                    "at {} variable {} expected {} got {}".format(
                                        locd, var, short(ev, 60), short(gv, 60)))
        elif not (only_requested and loc not in exp):
            for var in point.data_vars:
                gv = point[var].values
                gv = gv.item() if gv.ndim == 0 else gv
                if not is_missing(gv):
                    raise Violation(what + "/not-missing",
                                    "at {} variable {} expected missing got {}".format(
                                        locd, var, short(gv, 60)))


def check_dataframe(df, sweep, finished_locs, kind, what):
    from ..model import same, is_missing

    exp = sweep.expected()
    argn = sweep.case_args + [a for a, _ in sweep.combos]
    rows = {}
    for _, row in df.iterrows():
        loc = frozenset((a, plain(row[a])) for a in argn)
        if loc in rows:
            raise Violation(what + "/duplicate-row", "two rows for {}".format(dict(loc)))
        rows[loc] = row
    if set(rows) != set(exp):
        raise Violation(what + "/row-set", "rows for {} settings, expected {}".format(len(rows), len(exp)))
    for loc, row in rows.items():
        outs = outputs_of(kind, exp[loc])
        for var, ev in outs.items():
            gv = row[var]
            if finished_locs is None or loc in finished_locs:
                if not same(gv, ev):
                    raise Violation(what + "/wrong-value",
                                    "row {} column {} expected {} got {}".format(
                                        dict(sorted(loc)), var, short(ev, 60), short(gv, 60)))
            elif not is_missing(gv):
                raise Violation(what + "/not-missing",
                                "row {} column {} expected missing got {}".format(
                                    dict(sorted(loc)), var, short(gv, 60)))


def run_c09(ctx):
    """partial reap: finished batches exact, everything else missing, nothing deleted"""
    from xyzpy.gen.cropping import XYZError

    # every fourth run: the partial reap races with a process that is still growing
    if (ctx.params.get("run_index") or 0) % 4 == 3:
        return run_c09_race(ctx)

    kinds = [("scalar", 5), ("tuple2", 2), ("array", 2), ("bool", 1), ("str", 1),
             ("dict", 1), ("int", 1), ("ndarray", 1), ("intarray", 1), ("npscalar", 1), ("complex", 1)]
    m = CropMachine(ctx, kinds=kinds, max_n=30, max_batches=7,
                    world_cfg={"mtime_granularity": "tape"})
    t = ctx.tape
    early = None
    if t.flag(1, 4, "object-made-before-the-sow"):
        # a second session opened the (not yet existing) crop by name before it was sown
        early, _ = m.call("early-bird", lambda: m.load_crop(), oracle="early-crop-raised")
    m.sow()
    sw = m.sc.sweep
    kind = m.sc.kind
    consts = set(sw.constants)
    locs_of = {b: {G.loc_of(kw, consts) for kw in kws} for b, kws in m.batches.items()}
    sizes = {b: len(kws) for b, kws in m.batches.items()}
    enlarged = [b for b in sizes if sizes[b] > min(sizes.values())]
    allb = sorted(m.batches)
    finished = set()

    def finished_locs():
        return set().union(*[locs_of[b] for b in finished]) if finished else set()

    def partial_reap(stage):
        form = t.weighted([("raw", 3), ("ds", 2), ("df", 1)], "form")
        if form == "df" and kind in ("array", "dict", "ndarray", "intarray"):
            form = "ds"
        before = G.snapshot_tree(m.location)
        crop, which = m.crop_for("reap-reuse")
        if early is not None and t.flag(1, 2, "reap-by-early-object"):
            crop, which = early, "made-before-sow"
        ctx.t("partial-reap", form, which, "finished", sorted(finished))
        kw, _ = VAR_DESC[kind]

        def f():
            c = crop if crop is not None else m.load_crop()
            if form == "raw":
                return c.reap(allow_incomplete=True)
            return c.reap_combos_to_ds(allow_incomplete=True, to_df=(form == "df"), **kw)

        if t.flag(1, 6, "partial-reap-read-error"):
            # a transient I/O error (EIO) on one of the reaper's accesses to a finished
            # result: the reap may fail - it must not show that batch as missing
            import errno as _errno

            armed = {"on": True, "skip": t.choose(4, "read-error-skip")}
            at_kind = t.pick(["open-r", "read"], "read-error-at")
            resdir_ = os.path.join(m.location, "results")

            def hook(world, actor, kind_, path, detail):
                if armed["on"] and kind_ == at_kind and isinstance(path, str) \
                        and os.path.dirname(path) == resdir_:
                    if armed["skip"] > 0:
                        armed["skip"] -= 1
                        return None
                    armed["on"] = False
                    world.fired["read-error@" + kind_] += 1
                    return OSError(_errno.EIO, os.strerror(_errno.EIO), path)
                return None

            m.w.fault_hook = hook
            try:
                res, exc = m.call("reaper", f, must_succeed=False)
            finally:
                m.w.fault_hook = None
            if exc is not None:
                if armed["on"]:
                    raise Violation("partial-reap-raised", "{}: {}".format(
                        type(exc).__name__, short(str(exc), 200)), site=xyz_site(exc))
                ctx.stats["partial-reap-failed-on-read-error"] += 1
                if G.snapshot_tree(m.location) != before:
                    raise Violation("failed-partial-reap-changed-crop",
                                    "a partial reap that raised {} changed the crop directory".format(
                                        type(exc).__name__))
                # the error was transient: the same reap now goes through
                res, _ = m.call("reaper", f, oracle="partial-reap-raised")
        else:
            res, _ = m.call("reaper", f, oracle="partial-reap-raised")
        what = "partial-reap-" + form
        if form == "raw":
            bad = compare_nested(res, sw, m.sort_combos, finished_locs())
            if bad is not None:
                raise Violation(what + "/" + bad[0], bad[1] + " [finished batches {} of sizes {}]".format(
                    sorted(finished), sizes))
        elif form == "ds":
            check_dataset(res, sw, m.sort_combos, finished_locs(), kind, what)
        else:
            check_dataframe(res, sw, finished_locs(), kind, what)
        after = G.snapshot_tree(m.location)
        if after != before:
            raise Violation("partial-reap-changed-crop",
                            "default partial reap changed the crop directory: {}".format(
                                G.diff_trees(before, after)))
        ctx.stats["partial-" + form] += 1

    def refusal(stage):
        before = G.snapshot_tree(m.location)
        crop, which = m.crop_for("refuse-reuse")
        ctx.t("reap-without-flag", which)

        def f():
            c = crop if crop is not None else m.load_crop()
            return c.reap()

        _, exc = m.call("reaper", f, must_succeed=False)
        if exc is None:
            raise Violation("incomplete-reap-not-refused",
                            "reap() of a crop missing {} returned instead of raising".format(
                                sorted(set(allb) - finished)))
        if not isinstance(exc, XYZError):
            raise Violation("incomplete-reap-wrong-error",
                            "expected XYZError got {}: {}".format(type(exc).__name__, exc),
                            site=xyz_site(exc))
        if G.snapshot_tree(m.location) != before:
            raise Violation("refused-reap-changed-crop", "refusal modified the crop directory")
        ctx.stats["refusals"] += 1

    if m.B >= 2:
        # first subset: non-empty, proper; biased towards the uneven-batch boundary
        nfin = t.int_between(1, m.B - 1, "nfinished")
        order = t.perm(allb, "subset")
        first = set(order[:nfin])
        if enlarged and len(enlarged) < m.B and t.flag(1, 2, "straddle"):
            r = max(enlarged)
            boundary = t.pick(["last-enlarged-missing", "first-normal-missing", "both"], "boundary")
            if boundary in ("last-enlarged-missing", "both"):
                first.discard(r)
            if boundary in ("first-normal-missing", "both") and r + 1 in sizes:
                first.discard(r + 1)
            if not first:
                first = {b for b in allb if b not in (r, r + 1)} or {allb[0]}
            if len(first) == m.B:
                first.discard(r)
        missing0 = set(allb) - first
        if enlarged and max(enlarged) in missing0:
            m.w.probes["last-enlarged-batch-missing"] += 1
        if enlarged and (max(enlarged) + 1) in missing0:
            m.w.probes["first-normal-batch-missing"] += 1
        if 1 in missing0:
            m.w.probes["first-batch-missing"] += 1
        m.grow_op(ids=sorted(first), how="crop_grow")
        finished |= first
        refusal("first")
        partial_reap("first")
        rest = sorted(set(allb) - finished)
        if len(rest) > 1 and t.flag(2, 3, "second-stage"):
            more = t.perm(rest, "more")[: t.int_between(1, len(rest) - 1, "nmore")]
            m.grow_op(ids=sorted(more), how="crop_grow")
            finished |= set(more)
            partial_reap("second")
            if t.flag(1, 2, "refuse-again"):
                refusal("second")
        ctx.nontrivial = True
    else:
        refusal("nothing-grown")
    m.grow_op(how="grow_missing")
    finished = set(allb)
    res, _ = m.reap()
    bad = compare_nested(res, sw, m.sort_combos)
    if bad is not None:
        raise Violation("final-reap-differs/" + bad[0], bad[1])
    ctx.key = repr((m.sc.N, sizes, m.sc.shuffle["value"], kind, m.sc.api,
                    [x for x in ctx.trace if x.startswith(("partial", "grow"))]))


def check_sample_rows(df, kwargs_list, kind, hidden, what, finished_idx=None, approx=False):
    """df rows == one row per sown sample (in any order): arguments (without
    resources) and exactly that sample's outputs; unfinished rows missing.
    approx: the table went through a csv file (pandas' default float parser is
    not round-trip exact), compare floats to 1e-12 relative."""
    import math
    from ..model import same as _same, is_missing

    def same(x, y):
        if approx and isinstance(x, (int, float)) and isinstance(y, (int, float)) \
                and not isinstance(x, bool) and not isinstance(y, bool):
            return math.isclose(float(x), float(y), rel_tol=1e-12, abs_tol=1e-12)
        return _same(x, y)

    outs_names = list(outputs_of(kind, calllog.value(kind, kwargs_list[0])).keys()) \
        if kwargs_list else []
    rows = [dict(r) for _, r in df.iterrows()]
    if len(rows) != len(kwargs_list):
        raise Violation(what + "/row-count", "{} rows for {} samples".format(
            len(rows), len(kwargs_list)))
    used = [False] * len(rows)
    for idx, kw in enumerate(kwargs_list):
        args = {k: plain(v) for k, v in kw.items() if k not in hidden}
        fin = finished_idx is None or idx in finished_idx
        outs = outputs_of(kind, calllog.value(kind, kw))
        hit = None
        for j, r in enumerate(rows):
            if used[j]:
                continue
            if any(k not in r or not same(plain(r[k]), v) for k, v in args.items()):
                continue
            if fin and all(same(r[o], outs[o]) for o in outs):
                hit = j
                break
            if not fin and all(is_missing(r[o]) for o in outs):
                hit = j
                break
        if hit is None:
            raise Violation(what + "/row-missing-or-wrong",
                            "no row pairs arguments {} with {}".format(
                                args, "outputs " + short(outs, 80) if fin else "missing outputs"))
        used[hit] = True



# ------------------------------------------------- C09, racing partial reap


def run_c09_race(ctx):
    """A partial reap (allow_incomplete=True, default clean-up) while another
    process is still growing: every batch is reported either exactly or as
    missing, nothing is deleted, growing can continue and a later full reap is
    exact - also when the crop becomes complete *during* the reap."""
    import xyzpy
    from xyzpy.gen.cropping import grow as xgrow
    from ..sched import Scheduler
    from ..model import same, is_missing, walk_nested, ShapeMismatch

    t = ctx.tape
    role = t.weighted([(None, 2), ("runner", 1), ("harvester", 2), ("sampler", 1)], "role")
    if role == "sampler":
        kinds = [("scalar", 2), ("tuple2", 1)]
    elif role:
        kinds = [("scalar", 3), ("tuple2", 1), ("array", 1), ("int", 1)]
    else:
        kinds = [("scalar", 3), ("tuple2", 1), ("array", 1), ("str", 1)]
    m = CropMachine(ctx, kinds=kinds, max_n=16, max_batches=5,
                    farmer_roles=[role] if role else None, allow_cases=(role != "sampler"),
                    ext_choice=False,
                    world_cfg={"max_steps": 40000,
                               "op_cost": t.pick([0.001, 0.02], "op-cost")})
    w = m.w
    sw = m.sc.sweep
    kind = m.sc.kind
    if role == "sampler":
        m.sow_samples(t.int_between(2, 8, "nsamples"))
    else:
        m.sow()
    allb = sorted(m.batches)
    ctx.t("racing partial reap; farmer", role)
    if m.B < 2:
        m.grow_op(how="grow_missing")
        m.reap()
        return
    nfirst = t.int_between(1, m.B - 1, "nfirst")
    order = t.perm(allb, "first")
    first = sorted(order[:nfirst])
    rest = order[nfirst:]
    late = sorted(rest[: t.int_between(1, len(rest), "nlate")])
    m.grow_op(ids=first, how="crop_grow")
    before = G.snapshot_tree(m.location)
    ctx.t("reap(allow_incomplete=True) races with a grower of", late, "(finished before:", first, ")")
    sched = Scheduler(w, policy=t.pick(["uniform", "pct", "conflict"], "policy"),
                      stay=t.pick([1, 2, 4], "stay"))

    def reaper():
        c = m.load_crop()
        return c, c.reap(allow_incomplete=True)

    def grower():
        c = m.load_crop()
        for b in late:
            xgrow(b, c, verbosity=0)

    ra = sched.spawn("reaper", reaper)
    ga = sched.spawn("grower-late", grower)
    sched.run()
    if w.aborting:
        raise HarnessError("racing partial reap hit the step cap")
    if ga.exc is not None:
        raise Violation("late-grower-raised", "{}: {}".format(type(ga.exc).__name__, ga.exc),
                        site=xyz_site(ga.exc))
    if ra.exc is not None:
        raise Violation("racing-partial-reap-raised", "{}: {}".format(
            type(ra.exc).__name__, short(str(ra.exc), 200)), site=xyz_site(ra.exc))
    crop, res = ra.result
    # ---- per position: exact / missing / wrong
    consts = set(sw.constants)
    status = {}  # batch -> set of statuses of its positions
    if role == "sampler":
        rows = [dict(r) for _, r in res.iterrows()]
        if len(rows) != len(m.sample_kwargs):
            raise Violation("racing-partial-reap/row-count", "{} rows for {} samples".format(
                len(rows), len(m.sample_kwargs)))
        pos = 0
        for b in allb:
            for kw in m.batches[b]:
                outs = outputs_of(kind, calllog.value(kind, kw))
                r = rows[pos]
                pos += 1
                if all(same(r.get(o), v) for o, v in outs.items()):
                    st = "exact"
                elif all(is_missing(r.get(o)) for o in outs):
                    st = "missing"
                else:
                    st = "wrong: " + short({o: r.get(o) for o in outs}, 80)
                status.setdefault(b, set()).add(st)
    else:
        exp = sw.expected()
        batch_of = {G.loc_of(kw, consts): b for b, kws in m.batches.items() for kw in kws}
        if role is None:
            try:
                got = dict(walk_nested(res, sw.axes(m.sort_combos)))
            except ShapeMismatch as e:
                raise Violation("racing-partial-reap/shape", str(e))
            for loc, ev in exp.items():
                gv = got.get(loc)
                st = "exact" if same(gv, ev) else ("missing" if is_missing(gv) else
                                                   "wrong: " + short(gv, 60))
                status.setdefault(batch_of[loc], set()).add(st)
            for loc, gv in got.items():
                if loc not in exp and not is_missing(gv):
                    raise Violation("racing-partial-reap/not-missing",
                                    "un-requested position {} holds {}".format(dict(loc), short(gv, 60)))
        else:
            for loc, ev in exp.items():
                point = res.sel(**dict(loc))
                outs = outputs_of(kind, ev)
                vals = {}
                for var in outs:
                    gv = point[var].values
                    vals[var] = gv.item() if gv.ndim == 0 else gv
                if all(same(vals[o], outs[o]) for o in outs):
                    st = "exact"
                elif all(is_missing(vals[o]) for o in outs):
                    st = "missing"
                else:
                    st = "wrong: " + short(vals, 80)
                status.setdefault(batch_of[loc], set()).add(st)
    for b in allb:
        sts = status.get(b, set())
        if len(sts) != 1 or next(iter(sts)).startswith("wrong"):
            raise Violation("racing-partial-reap/batch-torn",
                            "batch {} is reported as {} (must be wholly exact or wholly "
                            "missing)".format(b, sorted(sts)))
        st = next(iter(sts))
        if b in first and st != "exact":
            raise Violation("racing-partial-reap/finished-batch-missing",
                            "batch {} was finished before the reap began but is reported missing".format(b))
        if b not in first and b not in late and st != "missing":
            raise Violation("racing-partial-reap/ungrown-batch-present",
                            "batch {} was never grown but is reported {}".format(b, st))
    seen_late = sorted(b for b in late if status[b] == {"exact"})
    ctx.stats["late-batches-seen-by-reap"] += len(seen_late)
    ctx.stats["late-batches-missed-by-reap"] += len(late) - len(seen_late)
    if set(first) | set(late) == set(allb):
        w.probes["crop-became-complete-during-partial-reap"] += 1
    # ---- nothing deleted: growing can continue
    after = G.snapshot_tree(m.location)
    if after is None:
        raise Violation("racing-partial-reap/crop-deleted",
                        "the crop directory is gone after a default allow_incomplete reap "
                        "(reported missing: {})".format(
                            sorted(b for b in allb if status[b] == {"missing"})))
    created, removed, modified = G.diff_trees(before, after)
    ok_new = {"results/xyz-result-{}.jbdmp".format(b) for b in late}
    if removed or modified or set(created) - ok_new:
        raise Violation("racing-partial-reap/crop-changed",
                        "removed {} modified {} unexpectedly created {}".format(
                            removed[:5], modified[:5], sorted(set(created) - ok_new)[:5]))
    # ---- and a later full reap is exact
    m.grow_op(how="grow_missing")
    (c2, full), _ = m.call("reaper", lambda: (lambda c: (c, c.reap()))(m.load_crop()),
                           oracle="final-reap-raised")
    if role is None:
        bad = compare_nested(full, sw, m.sort_combos)
        if bad is not None:
            raise Violation("final-reap-differs/" + bad[0], bad[1])
    elif role in ("runner", "harvester"):
        check_dataset(full, sw, m.sort_combos, None, kind, "final-reap-differs")
        if role == "harvester":
            disk, _ = m.call("fresh-reader", lambda: xyzpy.load_ds(
                m.fspec.data_name, engine=m.fspec.engine), oracle="load-raised")
            check_dataset(disk, sw, m.sort_combos, None, kind, "harvested-after-partial-then-full")
    else:
        hidden = set(m.fspec.resources) | set(m.sow_constants())
        check_sample_rows(full, m.sample_kwargs, kind, hidden, "final-reap-differs")
    ctx.nontrivial = True
    ctx.key = repr(("race", role, m.sc.N, m.B, kind, first, late, seen_late))
