"""crop_history: sequential histories over a crop, each step by a fresh
simulated process (actor) that knows only (name, parent_dir) - or by the
long-lived object a notebook user would keep.  Profiles: C04, C08, C09."""
import os
import pickle
import traceback

from .. import calllog, interpose, simexec
from ..model import compare_nested, plain, short
from ..world import Violation, HarnessError, SimCrash
from . import cropgen as G


def xyz_site(exc):
    """innermost xyzpy frame of an exception -> 'ExcType@function'"""
    fn = "?"
    for fs in traceback.extract_tb(exc.__traceback__):
        if "/xyzpy/" in fs.filename:
            fn = fs.name
    return "{}@{}".format(type(exc).__name__, fn)


class CropMachine:
    NAME = "crp"

    def __init__(self, ctx, kinds=None, max_n=40, farmer=None):
        import xyzpy  # noqa - after interpose.install()

        self.ctx = ctx
        self.tape = ctx.tape
        t = self.tape
        simexec.install()
        cfg = {
            "bufsize": t.weighted([(8192, 2), (64, 1), (16, 1)], "bufsize"),
            "split_writes": t.flag(1, 3, "split"),
            "permute_listing": t.flag(1, 2, "permute"),
        }
        self.w = ctx.world(cfg)
        self.root = self.w.root
        self.location = os.path.join(self.root, ".xyz-" + self.NAME)
        simexec.bind(t, ctx.stats, default={
            "boundary": t.pick(["process", "thread"], "ex-boundary")})
        sc = G.Scenario()
        sc.sweep = G.gen_sweep(t, max_n=max_n, kinds=kinds)
        sc.kind = sc.sweep.kind
        sc.N = sc.sweep.n()
        sc.batching = G.gen_batching(t, sc.N)
        sc.shuffle = G.gen_shuffle(t)
        if sc.sweep.cases is None:
            sc.api = "sow_combos"
        elif not sc.sweep.combos:
            sc.api = t.pick(["sow_cases", "sow_combos"], "api")
        else:
            sc.api = t.pick(["sow_combos", "sow_cases"], "api")
        if sc.api == "sow_cases":
            sc.shuffle["site"] = "ctor"  # sow_cases has no shuffle argument
        sc.spell = t.pick(["dict", "pairs"], "spell")
        sc.case_spell = t.pick(["dicts", "tuples"], "case-spell")
        self.sc = sc
        self.sort_combos = sc.api == "sow_combos"
        self.argnames = sc.sweep.case_args + [a for a, _ in sc.sweep.combos] \
            + list(sc.sweep.constants)
        self.fn = calllog.make_fn(sc.kind, self.argnames)
        self.long_crop = None
        self.nactors = 0
        self.batches = None  # {id: [kwargs]} read from disk after sow
        ctx.t("scenario", sc.describe())

    # ------------------------------------------------------------ plumbing
    def actor(self, role, kill_at=None):
        self.nactors += 1
        return self.w.actor("{}#{}".format(role, self.nactors), kill_at=kill_at)

    def call(self, role, f, must_succeed=True, oracle="op-raised"):
        """Run f() as a simulated process.  -> (value, exception)"""
        val = exc = None
        with self.actor(role) as a:
            try:
                val = f()
            except Exception as e:
                exc = e
        if a.dead:
            raise HarnessError("unexpected kill in fault-free call")
        if exc is not None and isinstance(exc, (Violation, HarnessError)):
            raise exc
        if exc is not None and must_succeed:
            raise Violation(
                "{}:{}".format(oracle, role), "{} raised {}: {}".format(
                    role, type(exc).__name__, short(str(exc), 300)),
                site=xyz_site(exc),
                details={"traceback": traceback.format_exception(
                    type(exc), exc, exc.__traceback__)[-6:]})
        return val, exc

    def ctor_kwargs(self):
        sc = self.sc
        kw = {}
        if sc.batching["how"] != "none" and sc.batching["site"] == "ctor":
            kw[sc.batching["how"]] = sc.batching["value"]
        if sc.shuffle["site"] == "ctor":
            kw["shuffle"] = sc.shuffle["value"]
        return kw

    def new_sow_crop(self):
        import xyzpy

        return xyzpy.Crop(fn=self.fn, name=self.NAME, parent_dir=self.root,
                          **self.ctor_kwargs())

    def load_crop(self):
        import xyzpy

        return xyzpy.Crop(name=self.NAME, parent_dir=self.root)

    def crop_for(self, reuse_label="reuse"):
        """the long-lived object (1 in 4) or a freshly loaded one"""
        if self.long_crop is not None and self.tape.flag(1, 4, reuse_label):
            self.ctx.stats["reused-object"] += 1
            return self.long_crop, "long"
        return None, "fresh"

    def do_sow(self, crop):
        sc = self.sc
        sw = sc.sweep
        kw = {}
        if sc.batching["how"] != "none" and sc.batching["site"] == "sow":
            kw[sc.batching["how"]] = sc.batching["value"]
        combos = dict(sw.combos) if sc.spell == "dict" else tuple(
            (a, tuple(v)) for a, v in sw.combos)
        constants = dict(sw.constants) or None
        if sc.api == "sow_combos":
            if sc.shuffle["site"] == "sow":
                kw["shuffle"] = sc.shuffle["value"]
            cases = [dict(c) for c in sw.cases] if sw.cases else None
            crop.sow_combos(combos or None, cases=cases, constants=constants,
                            verbosity=0, **kw)
        else:
            fn_args = tuple(sw.case_args)
            if sc.case_spell == "dicts":
                cases = [dict(c) for c in sw.cases]
            else:
                cases = [tuple(c[a] for a in fn_args) for c in sw.cases]
            crop.sow_cases(fn_args, cases, combos=combos or None,
                           constants=constants, verbosity=0, **kw)

    def sow(self):
        crop = self.new_sow_crop()
        self.long_crop = crop
        self.ctx.t("sow", self.sc.api, self.ctor_kwargs())
        self.call("sower", lambda: self.do_sow(crop), oracle="sow-raised")
        self.batches = G.read_batch_files(self.location)
        self.B = len(self.batches)
        if self.B == 0:
            raise Violation("sow-wrote-no-batches", "no batch files after sow")

    # --------------------------------------------------------- grow ops
    def gen_workers(self, label):
        return self.tape.weighted([(None, 3), (1, 1), (2, 1), (3, 1)], label)

    def grow_op(self, ids=None, how=None, must_succeed=True):
        """One tape-chosen grow operation.  Returns (how, ids, exception)."""
        from xyzpy.gen.cropping import grow as xgrow

        t = self.tape
        allids = list(range(1, self.B + 1))
        how = how or t.weighted(
            [("grow_fn", 3), ("crop_grow", 3), ("grow_missing", 2)], "grow-how")
        nw = self.gen_workers("grow-nw")
        kw = {} if nw is None else {"num_workers": nw}
        crop, which = self.crop_for()
        if how == "grow_fn":
            i = ids[0] if ids else t.pick(allids, "grow-id")
            ids = [i]

            def f():
                c = crop if crop is not None else self.load_crop()
                xgrow(i, c, verbosity=0, **kw)
        elif how == "crop_grow":
            if ids is None:
                n = t.int_between(1, min(self.B, 4), "grow-n")
                ids = t.perm(allids, "grow-ids")[:n]
            arg = ids[0] if (len(ids) == 1 and t.flag(1, 2, "grow-int")) else tuple(ids)

            def f():
                c = crop if crop is not None else self.load_crop()
                c.grow(arg, **kw)
        else:
            ids = None

            def f():
                c = crop if crop is not None else self.load_crop()
                c.grow_missing(**kw)
        self.ctx.t("grow", how, ids, kw, which)
        _, exc = self.call("grower", f, must_succeed=must_succeed, oracle="grow-raised")
        return how, ids, exc

    def reap(self, must_succeed=True, **opts):
        crop, which = self.crop_for("reap-reuse")
        self.ctx.t("reap", opts, which)

        def f():
            c = crop if crop is not None else self.load_crop()
            return c.reap(**opts)

        return self.call("reaper", f, must_succeed=must_succeed, oracle="reap-raised")


# ------------------------------------------------------------------- C04


def run_c04(ctx):
    """sow / grow (any order, grouping, repetition, parallel) / reap == direct"""
    m = CropMachine(ctx)
    t = ctx.tape
    m.sow()
    sw = m.sc.sweep
    # invariant: the sown batches hold every requested setting exactly once
    sown = sorted(calllog.key(kw) for b in m.batches.values() for kw in b)
    if sown != sw.expected_calls():
        raise Violation("sown-settings-differ",
                        "batch files hold {} settings, expected {}: {} vs {}".format(
                            len(sown), sw.n(), short(sown, 200), short(sw.expected_calls(), 200)))
    grown = set()
    nops = 0
    regrown = 0
    while nops < 12:
        missing = [i for i in range(1, m.B + 1) if i not in grown]
        # 0 = stop generating
        if not t.flag(5, 6, "more-grows") or (not missing and not t.flag(1, 3, "regrow")):
            break
        how, ids, _ = m.grow_op()
        nops += 1
        if ids is None:
            grown |= set(missing)
        else:
            regrown += len(set(ids) & grown)
            grown |= set(ids)
    if len(grown) < m.B:
        how, ids, _ = m.grow_op(how="grow_missing")
        nops += 1
    calls_before_reap = len(calllog.LOG)
    res, _ = m.reap()
    if len(calllog.LOG) != calls_before_reap:
        raise Violation("reap-called-fn", "reaping evaluated the function again")
    bad = compare_nested(res, sw, m.sort_combos)
    if bad is not None:
        raise Violation("reap-differs-from-direct/" + bad[0], bad[1],
                        details={"scenario": m.sc.describe()})
    if G.rexists(m.location):
        ctx.stats["crop-left-after-reap"] += 1
    ctx.stats["regrown"] += regrown
    ctx.stats["grow-ops"] += nops
    ctx.nontrivial = m.B > 1 and nops >= 1
    ctx.key = repr((m.sc.N, m.B, m.sc.batching, m.sc.shuffle, m.sc.api, m.sc.kind,
                    [x for x in ctx.trace if x.startswith("grow")]))
