"""C12: the crop is deleted only after its data is delivered.

One run = one cell of  clean_up x allow_incomplete x wait x farmer x failure
stage  (enumerated by run index) on a seeded scenario, followed by a corrected
retry."""
import os
import itertools

from .. import calllog, interpose
from ..model import compare_nested, short, plain
from ..sched import Scheduler
from ..world import Violation, HarnessError, enospc
from . import cropgen as G
from . import farmers as F
from .crop import (CropMachine, xyz_site, check_dataset, check_dataframe,
                   check_sample_rows)

STAGES = ("none", "incomplete", "unreadable", "wrong-desc", "merge-conflict", "save-error",
          "read-error")
ROLES = (None, "runner", "harvester", "sampler")


def all_cells():
    cells = []
    for cu, ai, wait, role, stage in itertools.product(
            (None, True, False), (False, True), (False, True), ROLES, STAGES):
        if stage == "wrong-desc" and role not in ("runner", "harvester"):
            continue
        if stage == "merge-conflict" and role != "harvester":
            continue
        if stage == "save-error" and role not in ("harvester", "sampler"):
            continue
        cells.append((cu, ai, wait, role, stage))
    return cells


CELLS = all_cells()


def run_c12(ctx):
    import xyzpy
    from xyzpy.gen.cropping import XYZError, grow as xgrow

    t = ctx.tape
    idx = ctx.params.get("run_index")
    if idx is None:
        idx = t.choose(len(CELLS), "cell")
    cell = CELLS[idx % len(CELLS)]
    clean_up, allow_incomplete, wait, role, stage = cell
    ctx.stats["cell:" + repr(cell)] += 1
    ctx.stats["cells_total={}".format(len(CELLS))] = 1
    if role == "sampler":
        kinds = [(k, 1) for k in ("scalar", "tuple2", "int")]
    elif stage == "wrong-desc":
        kinds = [("tuple2", 1)]
    elif role in ("runner", "harvester"):
        kinds = [("scalar", 3), ("tuple2", 2), ("array", 1), ("int", 1)]
    else:
        kinds = [("scalar", 3), ("tuple2", 1), ("array", 1), ("str", 1)]
    m = CropMachine(ctx, kinds=kinds, max_n=12, max_batches=4,
                    farmer_roles=[role] if role else None,
                    allow_cases=(role != "sampler"),
                    ext_choice=False,  # extension-less data names are C05's subject
                    world_cfg={"max_steps": 30000, "mtime_granularity": "tape"})
    w = m.w
    sw = m.sc.sweep
    kind = m.sc.kind
    ctx.t("cell", {"clean_up": clean_up, "allow_incomplete": allow_incomplete,
                   "wait": wait, "farmer": role, "stage": stage})
    fspec = m.fspec
    good_kwargs = None
    if stage == "wrong-desc":
        # the farmer stored with the crop describes 3 outputs, the function gives 2
        good = F.VAR_DESC["tuple2"]
        F.VAR_DESC["tuple2"] = ({"var_names": ["x", "y", "z"]}, ["x", "y", "z"])
        try:
            bad_kw = fspec.runner_kwargs()
        finally:
            F.VAR_DESC["tuple2"] = good
        real_rk = fspec.runner_kwargs
        fspec.runner_kwargs = lambda: dict(bad_kw)
    # ------------------------------------------------------------- pre-state
    if role == "sampler":
        n = t.int_between(2, 8, "nsamples")
        m.sow_samples(n)
    else:
        m.sow()
    if stage == "wrong-desc":
        fspec.runner_kwargs = real_rk
    allb = sorted(m.batches)
    consts_hidden = set(sw.constants)
    locs_of = {b: {G.loc_of(kw, consts_hidden) for kw in kws} for b, kws in m.batches.items()}
    finished = set(allb)
    if stage == "incomplete":
        if m.B >= 2:
            k = t.int_between(1, m.B - 1, "nfinished")
            finished = set(t.perm(allb, "finished")[:k])
        else:
            finished = set()
    if finished:
        m.grow_op(ids=sorted(finished), how="crop_grow")
    missing = sorted(set(allb) - finished)
    # harvester: earlier data on disk (disjoint extra coordinate or conflicting values)
    pre_ds = None
    if role == "harvester":
        conflict = stage == "merge-conflict"
        if conflict or t.flag(1, 2, "pre-data"):
            pre_ds = make_pre_dataset(m, conflict)

            def f():
                xyzpy.save_ds(pre_ds.copy(deep=True), fspec.data_name, engine=fspec.engine)

            m.call("earlier-session", f, oracle="pre-save-raised")
    pre_rows = None
    if role == "sampler" and t.flag(1, 2, "pre-rows"):
        import pandas as pd

        pre_rows = pd.DataFrame([{"zz": 1.0, "x": 5.0}, {"zz": 2.0, "x": 6.0}])

        def f():
            xyzpy.manage.save_df(pre_rows, fspec.data_name, engine=fspec.engine)

        m.call("earlier-session", f, oracle="pre-save-raised")
    if stage == "unreadable":
        b = t.pick(allb, "corrupt-id")
        path = os.path.join(m.location, "results", "xyz-result-{}.jbdmp".format(b))
        with interpose.real.open(path, "rb") as fh:
            good_bytes = fh.read()
        cut = t.pick(["half", "empty", "minus1"], "corrupt-how")
        data = {"half": good_bytes[: max(1, len(good_bytes) // 2)], "empty": b"",
                "minus1": good_bytes[:-1]}[cut]
        with m.actor("external"):
            with open(path, "wb") as fh:
                fh.write(data)
        w.fired["corrupt-result:" + cut] += 1
        ctx.t("corrupt_result", b, cut)
    # ------------------------------------------------------------- the reap
    before = G.snapshot_tree(m.location)
    def data_file_bytes():
        if not (fspec and fspec.data_name):
            return None
        fn_ = fspec.file_name()
        if not G.rexists(fn_):
            return None
        with interpose.real.open(fn_, "rb") as fh:
            return fh.read()

    data_before = data_file_bytes()
    opts = {"clean_up": clean_up, "allow_incomplete": allow_incomplete, "wait": wait}
    # allow_incomplete needs one finished result to infer the placeholder from
    # (documented); without one the reap is refused, whatever `wait` says
    refused_no_placeholder = stage == "incomplete" and allow_incomplete and not finished
    expect_fail = (
        (stage == "incomplete" and not allow_incomplete and not wait)
        or refused_no_placeholder
        or stage in ("unreadable", "wrong-desc", "merge-conflict", "save-error", "read-error")
    )
    # event-log ordering monitor
    order = {"first_crop_unlink": None, "data_published": None}
    data_file = fspec.file_name() if fspec and fspec.data_name else None

    def observer(world, actor, kind_, path, detail):
        if not actor.name.startswith("reaper"):
            return
        if kind_ in ("unlink", "rmdir") and isinstance(path, str) and path.startswith(m.location) \
                and order["first_crop_unlink"] is None:
            order["first_crop_unlink"] = world.steps
        if data_file and isinstance(path, str) and (path == data_file or detail == w.rel(data_file)):
            if kind_ in ("close", "rename"):
                order["data_published"] = world.steps

    w.observers.append(observer)
    if stage == "save-error":
        # ENOSPC on the first write into the data file (or its temporary) during the reap
        armed = {"on": True}
        ddir = os.path.dirname(data_file)
        dbase = os.path.basename(data_file)

        def hook(world, actor, kind_, path, detail):
            if armed["on"] and actor.name.startswith("reaper") and kind_ == "write" \
                    and isinstance(path, str) and os.path.dirname(path) == ddir \
                    and dbase.split(".")[0] in os.path.basename(path):
                armed["on"] = False
                return enospc()
            return None

        w.fault_hook = hook

    held = {}

    if stage == "read-error":
        # a transient I/O error (EIO) on the reaper's first access to the content of a
        # result file: the reap fails, nothing may be lost, the plain retry delivers
        import errno as _errno

        armed_r = {"on": True, "skip": t.choose(3, "read-error-skip")}
        at_kind = t.pick(["open-r", "read"], "read-error-at")
        resdir_ = os.path.join(m.location, "results")

        def hook_r(world, actor, kind_, path, detail):
            if armed_r["on"] and actor.name.startswith("reaper") and kind_ == at_kind \
                    and isinstance(path, str) and os.path.dirname(path) == resdir_:
                if armed_r["skip"] > 0:
                    armed_r["skip"] -= 1
                    return None
                armed_r["on"] = False
                world.fired["read-error@" + kind_] += 1
                return OSError(_errno.EIO, os.strerror(_errno.EIO), path)
            return None

        w.fault_hook = hook_r

    def do_reap(crop_factory, **o):
        def f():
            c = crop_factory()
            held["crop"] = c
            return c, c.reap(**o)
        return f

    need_helper = wait and stage == "incomplete" and not refused_no_placeholder
    ctx.t("reap", opts, "with-late-grower" if need_helper else "")
    exc = None
    res = None
    reap_crop = None
    late_results = set()
    if need_helper:
        # wait=True on an incomplete crop only terminates if somebody grows the rest
        sched = Scheduler(w, policy=t.pick(["uniform", "pct"], "policy"))
        ra = sched.spawn("reaper", do_reap(m.load_crop, **opts))

        def late():
            c = m.load_crop()
            for b in missing:
                xgrow(b, c, verbosity=0)

        ga = sched.spawn("grower-late", late)
        sched.run()
        if w.aborting:
            raise HarnessError("wait cell hit the step cap")
        if ga.exc is not None:
            raise Violation("late-grower-raised", repr(ga.exc), site=xyz_site(ga.exc))
        exc = ra.exc
        if exc is None:
            reap_crop, res = ra.result
        late_results = {"results/xyz-result-{}.jbdmp".format(b) for b in missing}
        finished = set(allb)
        missing = []
        expect_fail = False
    else:
        val, exc = m.call("reaper", do_reap(m.load_crop, **opts), must_succeed=False)
        if exc is None:
            reap_crop, res = val
    w.fault_hook = None
    if stage == "read-error" and armed_r["on"]:
        expect_fail = False  # fewer accesses than skipped: no error was injected
        ctx.stats["read-error-not-reached"] += 1
    after = G.snapshot_tree(m.location)
    if exc is not None:
        ctx.t("reap raised", type(exc).__name__)
        ctx.stats["reap-failed"] += 1
        if not expect_fail:
            raise Violation("reap-raised-unexpectedly:" + stage, "{}: {}".format(
                type(exc).__name__, short(str(exc), 300)), site=xyz_site(exc))
        # a reap that raises leaves every crop file in place
        if after != before:
            created, removed, modified = G.diff_trees(before, after)
            raise Violation("failed-reap-damaged-crop:" + stage,
                            "reap raised {} but the crop directory changed: removed {} "
                            "modified {} created {}".format(
                                type(exc).__name__, removed[:6], modified[:6], created[:6]),
                            site=xyz_site(exc))
        # ... and the accumulated data file is what it was (an atomic save either
        # happened or did not; a reap that raised did not deliver)
        if data_file_bytes() != data_before:
            raise Violation("failed-reap-changed-data-file:" + stage,
                            "reap raised {} but {} changed on disk".format(
                                type(exc).__name__, os.path.basename(fspec.file_name())),
                            site=xyz_site(exc))
        # ---------------------------------------------------- corrected retry
        retry_opts = {}
        check_stage = stage
        if stage == "incomplete":
            m.grow_op(how="grow_missing")
        elif stage == "unreadable":
            got, _ = m.call("checker", lambda: m.load_crop().check_bad(), oracle="check_bad-raised")
            m.grow_op(how="grow_missing")
        elif stage == "merge-conflict":
            if t.flag(1, 2, "fix-the-data-file"):
                # the other way to correct a conflict: another session repairs the data on
                # disk (here: replaces it by data at other coordinates); the plain reap -
                # also on the object that still remembers the old file - must then deliver
                fixed = make_pre_dataset(m, conflict=False)

                def fix():
                    xyzpy.save_ds(fixed.copy(deep=True), fspec.data_name, engine=fspec.engine)

                m.call("data-fixer", fix, oracle="pre-save-raised")
                pre_ds = fixed
                check_stage = "conflict-fixed-on-disk"
                ctx.stats["conflict-fixed-on-disk"] += 1
            else:
                retry_opts["overwrite"] = True
        finished = set(allb)

        if stage == "wrong-desc":
            def factory():
                right = fspec.build(m.fn)
                return xyzpy.Crop(farmer=right, name=m.NAME, parent_dir=m.root)
        elif held.get("crop") is not None and t.flag(1, 2, "retry-same-object"):
            # the session whose reap failed corrects the cause and calls reap() again on
            # the very same Crop (and farmer) object
            same = held["crop"]
            factory = lambda: same
            ctx.stats["retry-on-same-object"] += 1
            retry_opts = dict(retry_opts)
            ctx.t("retry-same-object")
        else:
            factory = m.load_crop
        ctx.t("retry", retry_opts or "")
        val, _ = m.call("reaper-retry", do_reap(factory, **retry_opts), oracle="retry-raised")
        reap_crop, res = val
        check_delivery(m, res, reap_crop, role, kind, None, check_stage, pre_ds, pre_rows,
                       overwrite=retry_opts.get("overwrite"))
        if G.rexists(m.location):
            raise Violation("crop-left-after-successful-reap",
                            "default clean-up after the retried full reap left the crop")
        ctx.nontrivial = True
    else:
        ctx.stats["reap-succeeded"] += 1
        if expect_fail:
            raise Violation("reap-succeeded-despite:" + stage,
                            "reap({}) returned although stage {} should make it fail".format(opts, stage))
        partial = bool(missing) and allow_incomplete and not wait
        fin_locs = None
        fin_idx = None
        if partial:
            fin_locs = set().union(*[locs_of[b] for b in finished]) if finished else set()
            if role == "sampler":
                pos = 0
                fin_idx = set()
                for b in allb:
                    for _ in m.batches[b]:
                        if b in finished:
                            fin_idx.add(pos)
                        pos += 1
        check_delivery(m, res, reap_crop, role, kind, fin_locs, stage, pre_ds, pre_rows,
                       fin_idx=fin_idx)
        # documented clean-up rule
        should_delete = clean_up if clean_up is not None else (not allow_incomplete)
        exists = G.rexists(m.location)
        if should_delete and exists:
            raise Violation("clean_up-not-honoured/kept",
                            "reap({}) should have deleted the crop".format(opts))
        if not should_delete and not exists:
            raise Violation("clean_up-not-honoured/deleted",
                            "reap({}) deleted the crop although it should be kept".format(opts))
        if not should_delete:
            created, removed, modified = G.diff_trees(before, after)
            if removed or modified or set(created) - late_results:
                raise Violation("kept-crop-modified", "reap({}) changed crop files: {}".format(
                    opts, (created, removed, modified)))
        if should_delete and role in ("harvester", "sampler"):
            if order["data_published"] is None or order["first_crop_unlink"] is None:
                raise HarnessError("ordering monitor saw no data write / unlink: {}".format(order))
            if order["first_crop_unlink"] < order["data_published"]:
                raise Violation("crop-deleted-before-data-saved",
                                "first unlink under the crop at step {} precedes publication "
                                "of {} at step {}".format(order["first_crop_unlink"],
                                                          os.path.basename(data_file),
                                                          order["data_published"]))
        ctx.nontrivial = True
    ctx.key = repr((cell, m.sc.N, m.B, kind, sorted(finished)))


def make_pre_dataset(m, conflict):
    """Data 'already harvested' by an earlier session, shaped like the crop's
    output.  conflict=False: same variables at *other* coordinates of the
    first argument; conflict=True: different values at the crop's own
    coordinates."""
    import numpy as np
    import xarray as xr

    sw = m.sc.sweep
    axes = sw.axes(True)
    names = [a for a, _ in axes]
    outs = F.VAR_DESC[m.sc.kind][1]
    kind = m.sc.kind
    coords = {a: list(v) for a, v in axes}
    a0 = names[0]
    if not conflict:
        # coordinates that the crop does not touch
        pool = [v for v in G.POOLS["int"] + G.POOLS["float"] + G.POOLS["str"]
                if type(v) is type(coords[a0][0]) and v not in coords[a0]]
        coords[a0] = pool[:2] if pool else coords[a0]
    elif len(coords[a0]) >= 2 and m.tape.flag(1, 2, "partial-conflict"):
        # the earlier data covers only part of the crop's grid (and conflicts there)
        k = m.tape.int_between(1, len(coords[a0]) - 1, "partial-conflict-n")
        coords[a0] = m.tape.perm(coords[a0], "partial-conflict-which")[:k]
        m.ctx.stats["partial-conflict"] += 1
    shape = [len(coords[a]) for a in names]
    data = {}
    near = conflict and kind in ("scalar", "tuple2") and m.tape.flag(1, 3, "near-conflict")
    if near:
        # the earlier data is what the crop will compute, off by a relative 2**-41: a real
        # conflict that any tolerance would wave through
        import itertools
        from .. import calllog as _cl
        from .crop import outputs_of as _outs

        exp = sw.expected()
        m.ctx.stats["near-conflict"] += 1
        for o in outs:
            arr = np.full(shape, np.nan)
            for idx in itertools.product(*[range(n_) for n_ in shape]):
                loc = frozenset((a, plain(coords[a][i])) for a, i in zip(names, idx))
                if loc in exp:
                    arr[idx] = _outs(kind, exp[loc])[o] * _cl.NEAR
            data[o] = (names, arr)
        return xr.Dataset(data, coords=dict(coords))
    for o in outs:
        if kind == "array":
            arr = np.full(shape + [3], 123.5)
            data[o] = (names + ["t"], arr)
        else:
            data[o] = (names, np.full(shape, 77 if kind == "int" else 123.5))
    c = dict(coords)
    if kind == "array":
        c["t"] = [0, 1, 2]
    return xr.Dataset(data, coords=c)


def check_delivery(m, res, crop, role, kind, fin_locs, stage, pre_ds, pre_rows,
                   overwrite=None, fin_idx=None):
    """The reap's return value and (harvester / sampler) the data on disk."""
    import xyzpy

    sw = m.sc.sweep
    fspec = m.fspec
    if role is None:
        bad = compare_nested(res, sw, m.sort_combos, fin_locs)
        if bad is not None:
            raise Violation("reaped-data-wrong/" + bad[0], bad[1])
        return
    if role in ("runner", "harvester"):
        check_dataset(res, sw, m.sort_combos, fin_locs, kind, "reaped-dataset")
        if crop.farmer.last_ds is not res:
            raise Violation("last_ds-not-set", "farmer.last_ds is not the reaped dataset")
    if role == "harvester":
        def f():
            return xyzpy.load_ds(fspec.data_name, engine=fspec.engine)

        disk, _ = m.call("fresh-reader", f, oracle="load-after-reap-raised")
        # the crop's own data
        sub = disk
        if pre_ds is not None and stage != "merge-conflict":
            sub = disk.sel({a: list(v) for a, v in sw.axes(True)})
        check_dataset(sub, sw, m.sort_combos, fin_locs, kind, "harvested-on-disk",
                      only_requested=(stage == "merge-conflict"))
        # earlier data survives (unless it was legitimately overwritten)
        if pre_ds is not None and stage != "merge-conflict":
            from ..model import same

            for var in pre_ds.data_vars:
                a = pre_ds[var]
                try:
                    b = disk[var].sel({d: a[d].values for d in a.dims})
                except KeyError as e:
                    raise Violation("earlier-harvest-lost",
                                    "previously saved coordinates are gone from disk: {}".format(e))
                if not same(b.transpose(*a.dims).values, a.values):
                    raise Violation("earlier-harvest-lost",
                                    "variable {} of the previously saved data changed".format(var))
    if role == "sampler":
        hidden = set(fspec.resources) | set(m.sow_constants())
        check_sample_rows(res, m.sample_kwargs, kind, hidden, "reaped-rows", fin_idx)

        def f():
            return xyzpy.load_df(fspec.data_name, engine=fspec.engine)

        disk, _ = m.call("fresh-reader", f, oracle="load-after-reap-raised")
        npre = 0 if pre_rows is None else len(pre_rows)
        if len(disk) != npre + len(m.sample_kwargs):
            raise Violation("sample-table-length",
                            "table on disk has {} rows, expected {} earlier + {} new".format(
                                len(disk), npre, len(m.sample_kwargs)))
        check_sample_rows(disk.iloc[npre:], m.sample_kwargs, kind, hidden, "rows-on-disk", fin_idx,
                          approx=False)
