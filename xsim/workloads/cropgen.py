"""Scenario generation and helpers shared by the crop workloads."""
import os
import math
import pickle

from ..model import Sweep, plain
from .. import calllog, interpose
from ..world import Violation, HarnessError

ARG_POOL = ["a", "b", "c", "d", "e"]
POOLS = {
    "int": [1, 2, 3, 4, 5, 7, 10, 20],
    "float": [0.5, 1.5, 2.5, 3.5, 4.5],
    "str": ["p", "q", "r", "s", "t"],
}
KINDS = [("scalar", 6), ("tuple2", 2), ("array", 2), ("bool", 1), ("str", 1),
         ("dict", 1), ("int", 1), ("ndarray", 1), ("intarray", 1), ("npscalar", 1), ("complex", 1)]


class Scenario:
    """Everything that defines the sown sweep and how the crop is created."""

    def describe(self):
        d = {
            "kind": self.kind, "api": self.api,
            "combos": self.sweep.combos, "cases": self.sweep.cases,
            "constants": self.sweep.constants, "N": self.N,
            "batching": self.batching, "shuffle": self.shuffle,
        }
        if getattr(self, "farmer", None):
            d["farmer"] = self.farmer
        return d


def gen_values(tape, nmax=4, label="vals", typ=None, allow_mixed=False):
    typ = typ or tape.weighted([("int", 4), ("float", 1), ("str", 1)] + ([("mixed", 1)] if allow_mixed else []),
                               label + "-type")
    if typ == "float" and allow_mixed and tape.flag(1, 3, label + "-near"):
        # distinct floats one ulp apart are distinct values
        pool = tape.perm([0.3, 0.1 + 0.2, 2.5, 1.1 + 2.2, 3.3], label + "-perm")
    elif typ == "mixed":
        # one argument's values of different types (no two of them equal)
        pool = tape.perm(POOLS["int"][:3] + POOLS["float"][:2] + POOLS["str"][:2], label + "-perm")
    else:
        pool = tape.perm(POOLS[typ], label + "-perm")
    n = tape.int_between(1, nmax, label + "-n")
    return typ, pool[:n]


def gen_sweep(tape, max_n=40, kinds=None, allow_cases=True, max_args=4, allow_mixed=False,
              arg_pool=None):
    kind = tape.weighted(kinds or KINDS, "kind")
    mode = tape.weighted([("combos", 3), ("cases", 1), ("mixed", 1)], "mode") \
        if allow_cases else "combos"
    names = tape.perm(arg_pool or ARG_POOL, "argnames")
    nargs = tape.int_between(1, max_args, "nargs")
    names = names[:nargs]
    if mode == "combos":
        case_args, combo_args = [], names
    elif mode == "cases":
        case_args, combo_args = names[: min(2, nargs)], []
    else:
        if nargs < 2:
            names = (names + [a for a in (arg_pool or ARG_POOL) if a not in names])[:2]
        k = 1 if len(names) < 3 else tape.int_between(1, 2, "ncaseargs")
        case_args, combo_args = names[:k], names[k:]
    combos = []
    n = 1
    for a in combo_args:
        _, vals = gen_values(tape, 4, "cv", allow_mixed=allow_mixed)
        # keep the total number of settings bounded
        while n * len(vals) > max_n and len(vals) > 1:
            vals = vals[:-1]
        n *= len(vals)
        combos.append((a, vals))
    cases = None
    if case_args:
        pools = []
        for a in case_args:
            typ, _ = gen_values(tape, 1, "casetype")
            pools.append(tape.perm(POOLS[typ], "casepool")[:4])
        want = tape.int_between(1, 6, "ncases")
        seen = []
        tries = 0
        while len(seen) < want and tries < 30:
            tries += 1
            c = tuple(p[tape.choose(len(p), "caseval")] for p in pools)
            if c not in seen and (len(seen) + 1) * n <= max_n:
                seen.append(c)
        if not seen:
            seen = [tuple(p[0] for p in pools)]
        cases = [dict(zip(case_args, c)) for c in seen]
        if len(case_args) > 1:
            # a dict is a mapping: each case may list its arguments in its own order
            cases = [dict(reversed(list(c.items()))) if tape.flag(1, 3, "case-key-order") else c
                     for c in cases]
    constants = {}
    for nm in tape.subset(["k", "m"], "consts", 1, 3):
        constants[nm] = tape.pick([3, 6, 9], "constval")
    return Sweep(kind, combos, cases, constants)


def spell_values(tape, vals, as_tuple=False, label="vals-as"):
    """The container a caller passes an argument's values in: list / tuple, and
    sometimes a numpy array (np.linspace / np.arange style) or a range."""
    import numpy as np

    vals = list(vals)
    how = tape.choose(6, label)
    if how == 4 and len({type(v) for v in vals}) == 1:
        return np.array(vals)
    if how == 5 and all(type(v) is int for v in vals) and vals == list(range(vals[0], vals[0] + len(vals))):
        return range(vals[0], vals[0] + len(vals))
    return tuple(vals) if as_tuple else vals


def gen_batching(tape, N, label="batching"):
    how = tape.weighted([("none", 1), ("batchsize", 3), ("num_batches", 3)], label)
    if how == "none":
        return {"how": "none", "site": "ctor"}
    site = tape.pick(["ctor", "sow"], label + "-site")
    if how == "batchsize":
        return {"how": how, "site": site,
                "value": tape.int_between(1, N + 1, label + "-bs")}
    return {"how": how, "site": site,
            "value": tape.int_between(1, N + 2, label + "-nb")}


def gen_shuffle(tape, label="shuffle"):
    val = tape.weighted([(False, 3), (True, 2), (2, 1), (7, 1), (13, 1)], label)
    site = tape.pick(["sow", "ctor"], label + "-site")
    return {"value": val, "site": site}


def expected_num_batches(N, batching):
    if batching["how"] == "none":
        return N
    if batching["how"] == "batchsize":
        return math.ceil(N / batching["value"])
    return min(N, batching["value"])


# ------------------------------------------------------------- disk helpers
# (harness-side: always through the real, un-interposed functions)


def rlistdir(path):
    try:
        return sorted(interpose.real.listdir(path))
    except (FileNotFoundError, NotADirectoryError):
        return None


def rexists(path):
    try:
        interpose.real.stat(path)
        return True
    except OSError:
        return False


def snapshot_tree(path):
    """{relpath: bytes} of every file below path (dirs as None)."""
    out = {}
    if not rexists(path):
        return None

    def rec(d, rel):
        for name in sorted(interpose.real.listdir(d)):
            p = os.path.join(d, name)
            r = os.path.join(rel, name) if rel else name
            if os.path.isdir(p):
                out[r + "/"] = None
                rec(p, r)
            else:
                with interpose.real.open(p, "rb") as f:
                    out[r] = f.read()

    rec(path, "")
    return out


def diff_trees(before, after):
    """-> (created, removed, modified) relpaths"""
    before = before or {}
    after = after or {}
    created = sorted(k for k in after if k not in before)
    removed = sorted(k for k in before if k not in after)
    modified = sorted(k for k in after if k in before and after[k] != before[k])
    return created, removed, modified


def read_batch_files(location):
    """{batch id: [kwargs,...]} straight from the sown files (real I/O)."""
    out = {}
    d = os.path.join(location, "batches")
    for name in rlistdir(d) or []:
        core = name[len("xyz-batch-"):-len(".jbdmp")]
        if name.startswith("xyz-batch-") and name.endswith(".jbdmp") and core.isdigit():
            with interpose.real.open(os.path.join(d, name), "rb") as f:
                out[int(core)] = pickle.load(f)
    return out


def result_ids(location):
    d = os.path.join(location, "results")
    ids = set()
    for name in rlistdir(d) or []:
        core = name[len("xyz-result-"):-len(".jbdmp")]
        if name.startswith("xyz-result-") and name.endswith(".jbdmp") and core.isdigit():
            ids.add(int(core))
    return ids


def loc_of(kwargs, constants):
    return frozenset((k, plain(v)) for k, v in kwargs.items() if k not in constants)
