"""C11: concurrent growers, a waiting reaper and a progress poller, every
file-system operation a scheduling point."""
import os
import hashlib

from .. import calllog, interpose, simexec
from ..model import Sweep, compare_nested, short
from ..sched import Scheduler
from ..world import Violation, HarnessError
from . import cropgen as G
from . import farmers as F
from .crop import xyz_site, check_dataset

NAME = "rc"


def run_c11(ctx):
    import xyzpy
    from xyzpy.gen.cropping import grow as xgrow

    t = ctx.tape
    simexec.install()
    simexec.bind(t, ctx.stats)
    cfg = {
        "bufsize": t.weighted([(8192, 2), (16, 2), (64, 1)], "bufsize"),
        "split_writes": t.flag(1, 2, "split"),
        "permute_listing": t.flag(1, 2, "permute"),
        "op_cost": t.pick([0.001, 0.02, 0.1], "op-cost"),
        "max_steps": 20000,
    }
    w = ctx.world(cfg)
    root = w.root
    location = os.path.join(root, ".xyz-" + NAME)
    # ------------------------------------------------------------ scenario
    deep = ctx.params.get("tier") == "thorough"
    B = t.int_between(1, 4 if deep else 3, "B")
    per = t.int_between(1, 2, "per-batch")
    if t.flag(1, 10, "big-batches"):
        # the quantifier bounds the number of batches, not their size: sometimes
        # batches of more than a hundred cases (results of a few kilobytes)
        per = t.int_between(101, 130, "per-batch-big")
        ctx.stats["big-batch-runs"] += 1
    kind = t.weighted([("scalar", 3), ("tuple2", 1), ("str", 1), ("array", 1)], "kind")
    nvals = B * per
    vals = G.POOLS["int"][:nvals] if nvals <= len(G.POOLS["int"]) else list(range(1, nvals + 1))
    sweep = Sweep(kind, [("a", vals)], None, {"k": 3} if t.flag(1, 3, "const") else {})
    fn = calllog.make_fn(kind, ["a"] + list(sweep.constants))
    shuffle = t.pick([False, True, 3], "shuffle")
    # the reaper may deliver into a Runner / Harvester (labelled dataset, data file)
    role = t.weighted([(None, 3), ("runner", 1), ("harvester", 1)], "farmer")
    fspec = None
    if role is not None:
        fspec = F.FarmerSpec(role, kind, runner_constants=dict(sweep.constants),
                             data_name=os.path.join(root, "hv.h5") if role == "harvester" else None,
                             engine=t.pick(["h5netcdf", "joblib"], "engine") if role == "harvester" else None)
        if fspec.engine == "joblib":
            fspec.data_name = os.path.join(root, "hv.dmp")
    with w.actor("sower"):
        if fspec is not None:
            crop = fspec.build(fn).Crop(name=NAME, parent_dir=root, num_batches=B)
            crop.sow_combos({"a": vals}, shuffle=shuffle, verbosity=0)
        else:
            crop = xyzpy.Crop(fn=fn, name=NAME, parent_dir=root, num_batches=B)
            crop.sow_combos({"a": vals}, constants=dict(sweep.constants) or None,
                            shuffle=shuffle, verbosity=0)
    batches = G.read_batch_files(location)
    if len(batches) != B:
        raise HarnessError("expected {} batches got {}".format(B, len(batches)))
    # who grows what: every batch by someone, optionally some batch twice
    ngrow = t.int_between(1, 4 if deep else 3, "ngrowers")
    assign = [[] for _ in range(ngrow)]
    for b in range(1, B + 1):
        assign[t.choose(ngrow, "assign")].append(b)
    dup = t.flag(1, 3, "dup-grow")
    if dup:
        b = 1 + t.choose(B, "dup-batch")
        owner = [i for i, a in enumerate(assign) if b in a][0]
        other = t.choose(ngrow, "dup-who")
        if other == owner and ngrow > 1:
            other = (owner + 1) % ngrow
        assign[other].append(b)
        w.fired["dup-grow"] += 1
    assign = [t.perm(a, "grow-order") for a in assign if a]
    poller_on = t.flag(1, 2, "poller")
    npolls = t.int_between(1, 4, "npolls") if poller_on else 0
    policy = t.pick(["uniform", "pct", "conflict"], "policy")
    ctx.t("scenario", {"B": B, "per": per, "kind": kind, "shuffle": shuffle,
                       "growers": assign, "poller": npolls, "policy": policy, "farmer": role,
                       "bufsize": cfg["bufsize"], "split": cfg["split_writes"],
                       "op_cost": cfg["op_cost"]})
    sched = Scheduler(w, policy=policy, stay=t.pick([1, 2, 4], "stay"),
                      pct_depth=t.int_between(1, 3, "pct-d"), pct_horizon=60 * (B + 1))
    # ------------------------------------------------------------ monitors
    completed = {}  # batch -> world step at which some grow of it had returned
    writers = {}  # path -> set of actors that have it open for writing
    respath = {os.path.join(location, "results", "xyz-result-{}.jbdmp".format(b)): b
               for b in range(1, B + 1)}
    resdir = os.path.join(location, "results")
    state = {"growers_left": len(assign), "reaper_sleeps_after_done": 0,
             "reaper_ops_after_done": 0, "all_done_step": None}
    trace_h = hashlib.sha256()

    import re
    tmp_rx = re.compile(r"^(.*\.jbdmp)\.[^/]*tmp[^/]*$")

    def observer(world, actor, kind_, path, detail):
        role = actor.name.split("-")[0]
        # a temporary name that will be moved onto a result counts as that result
        mt = tmp_rx.match(path) if isinstance(path, str) else None
        if mt:
            path = mt.group(1)
        if path in respath or path == resdir or (isinstance(path, str) and path.startswith(resdir)):
            trace_h.update("{}|{}|{}".format(actor.index if hasattr(actor, "index") else -1,
                                             kind_, "res" if path in respath else "dir").encode())
        if kind_ in ("open-w", "open-a", "open-x") and role == "grower":
            writers.setdefault(path, set()).add(actor)
            if path in respath and len(writers[path]) > 1:
                world.probes["duplicate-grow-overlap"] += 1
        elif kind_ == "close" and role == "grower":
            writers.get(path, set()).discard(actor)
        elif role in ("reaper", "poller"):
            if path in respath and writers.get(path):
                if kind_ == "stat":
                    world.probes["reader-stat-on-result-while-its-writer-is-active"] += 1
                elif kind_ == "open-r":
                    world.probes["reader-opened-result-while-a-writer-is-active"] += 1
            if kind_ == "scandir" and path == resdir and any(
                    writers.get(p) for p in respath):
                world.probes["poll-during-write"] += 1
        if role == "reaper" and state["all_done_step"] is not None:
            state["reaper_ops_after_done"] += 1

    w.observers.append(observer)

    def grower(mine):
        def f():
            try:
                c = xyzpy.Crop(name=NAME, parent_dir=root)
                for b in mine:
                    xgrow(b, c, verbosity=0)
                    completed.setdefault(b, w.steps)
                    w.note("grow-done", b)
                state["growers_ok"] = state.get("growers_ok", 0) + 1
            finally:
                state["growers_left"] -= 1
                if state["growers_left"] == 0:
                    state["all_done_step"] = w.steps
                    state["all_done_clock"] = w.clock
        return f

    def reaper():
        c = xyzpy.Crop(name=NAME, parent_dir=root)
        # the crop is kept when a poller keeps asking about it, and when the
        # same batch is grown twice (a straggling duplicate grower racing with
        # the clean-up is outside what C11 states; clean-up ordering is C12)
        res = c.reap(wait=True, clean_up=False if (poller_on or dup) else None)
        state["reaper_returned"] = True
        return res

    polls = []

    def poller():
        c = xyzpy.Crop(name=NAME, parent_dir=root)
        for _ in range(npolls):
            q = t.choose(3, "poll-what")
            s0 = set(completed)
            if q == 0:
                val = c.num_results
            elif q == 1:
                val = bool(c.is_ready_to_reap())
            else:
                val = tuple(c.missing_results())
            polls.append((q, val, s0, set(completed)))
            w.note("poll", (q, val))

    real_sleep = w.sleep

    def counting_sleep(actor, seconds):
        if actor.name.startswith("reaper"):
            w.probes["reaper-slept"] += 1
            if state["all_done_step"] is not None:
                state["reaper_sleeps_after_done"] += 1
        return real_sleep(actor, seconds)

    w.sleep = counting_sleep
    gactors = [sched.spawn("grower-{}".format(i + 1), grower(a)) for i, a in enumerate(assign)]
    ractor = sched.spawn("reaper", reaper)
    pactor = sched.spawn("poller", poller) if poller_on else None
    sched.run()
    ctx.t("schedule: actor index chosen at each context switch", sched.trace[:300])
    ctx.stats["switches"] += sched.switches
    ctx.stats["sched-steps"] += sched.steps
    ctx.stats["policy-" + policy] += 1
    for a in gactors:
        if a.exc is not None and not isinstance(a.exc, (HarnessError,)):
            raise Violation("grower-raised", "{} raised {}: {}".format(
                a.name, type(a.exc).__name__, short(str(a.exc), 200)), site=xyz_site(a.exc))
    if w.aborting:
        # step cap: is the reaper stuck although every grower is done?
        # (after an abort every actor has been unwound, so "finished" says nothing:
        # what counts is whether each grower ran to its end and the reap returned)
        if state.get("growers_ok", 0) == len(gactors) and not state.get("reaper_returned") \
                and ractor.exc is None:
            raise Violation("reaper-stuck",
                            "all growers finished at step {} but the reaper never returned "
                            "(step cap {})".format(state["all_done_step"], cfg["max_steps"]))
        raise HarnessError("race run hit the step cap with growers still running")
    # ------------------------------------------------------------- oracles
    for a in gactors:
        if a.exc is not None:
            raise Violation("grower-raised", "{} raised {}: {}".format(
                a.name, type(a.exc).__name__, short(str(a.exc), 200)), site=xyz_site(a.exc))
    if ractor.exc is not None:
        e = ractor.exc
        raise Violation("reaper-raised", "reap(wait=True) raised {}: {}".format(
            type(e).__name__, short(str(e), 200)), site=xyz_site(e))
    if role is None:
        bad = compare_nested(ractor.result, sweep, True)
        if bad is not None:
            raise Violation("waiting-reap-differs/" + bad[0], bad[1])
    else:
        check_dataset(ractor.result, sweep, True, None, kind, "waiting-reap-differs")
        if role == "harvester":
            with w.actor("fresh-reader"):
                disk = xyzpy.load_ds(fspec.data_name, engine=fspec.engine)
            check_dataset(disk, sweep, True, None, kind, "harvested-file-after-waiting-reap")
    if pactor is not None and pactor.exc is not None:
        e = pactor.exc
        raise Violation("poller-raised", "progress query raised {}: {}".format(
            type(e).__name__, short(str(e), 200)), site=xyz_site(e))
    allb = set(range(1, B + 1))
    for q, val, s0, s1 in polls:
        if q == 0:
            if not (len(s0) <= val <= len(s1)):
                raise Violation("poll-count-out-of-bracket",
                                "num_results={} but {} batches were complete when the query "
                                "began and {} when it returned".format(val, len(s0), len(s1)))
        elif q == 1:
            if val and s1 != allb:
                raise Violation("poll-ready-too-early",
                                "is_ready_to_reap() was True with only {} complete".format(sorted(s1)))
        else:
            m = set(val)
            if not (m <= allb - s0) or not (m >= allb - s1):
                raise Violation("poll-missing-out-of-bracket",
                                "missing_results()={} but complete at start {} / at end {}".format(
                                    sorted(m), sorted(s0), sorted(s1)))
    # bounded liveness: once every result is published the reaper needs at most
    # one more poll interval (plus one for a sleep already decided) and a
    # bounded number of its own operations
    if state["reaper_sleeps_after_done"] > 2:
        raise Violation("reaper-slow-after-growers-done",
                        "reaper slept {} more times after all growers had finished".format(
                            state["reaper_sleeps_after_done"]))
    if state["reaper_ops_after_done"] > 400 * (B + 1):
        raise Violation("reaper-slow-after-growers-done",
                        "reaper needed {} operations after all growers had finished".format(
                            state["reaper_ops_after_done"]))
    ctx.nontrivial = sched.switches >= 2
    ctx.key = trace_h.hexdigest()[:24]
