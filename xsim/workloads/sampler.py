"""C15: sampling only ever appends correct rows.

Histories of sample_combos runs, sow_samples/grow/reap runs (grown in any
order by fresh simulated processes) and new sessions over one table file,
against a list-of-rows model."""
import os
import math

import numpy as np

from .. import calllog, simexec
from ..model import same, short, plain, is_missing
from ..world import Violation, HarnessError
from . import cropgen as G
from .crop import xyz_site, outputs_of

GEN_RANGE = [11, 12, 13]


def gen_b():
    """a 'supplied generator' for one argument (module-level: pickled by reference)"""
    return int(np.random.choice(GEN_RANGE))


def cell_same(x, y, approx):
    if is_missing(x) and is_missing(y):
        return True
    if approx:
        try:
            fx, fy = float(x), float(y)
            return math.isclose(fx, fy, rel_tol=1e-12, abs_tol=1e-12)
        except (TypeError, ValueError):
            pass
    return same(plain(x), plain(y))


def table_rows(df):
    return [{k: r[k] for k in df.columns} for _, r in df.iterrows()]


def run_c15(ctx):
    import xyzpy
    from xyzpy.gen.cropping import grow as xgrow

    t = ctx.tape
    simexec.install()
    simexec.bind(t, ctx.stats)
    cfg = {"bufsize": t.pick([8192, 64], "bufsize"), "permute_listing": t.flag(1, 2, "permute"),
           "split_writes": t.flag(1, 3, "split")}
    w = ctx.world(cfg)
    root = w.root
    kind = t.pick(["scalar", "tuple2", "int", "str"], "kind")
    engine = t.pick(["pickle", "csv"], "engine")
    approx = False  # csv too: full-precision text round-trips exactly
    data_name = os.path.join(root, "tab." + ("pkl" if engine == "pickle" else "csv"))
    # arguments: a (choices), b (choices or generator), optional c; constants k (runner) / m (per run)
    a_vals = t.perm(G.POOLS["int"], "a")[: t.int_between(1, 4, "na")]
    a_choices = None
    a_form = t.choose(6, "a-choices-as")
    if a_form == 3:
        a_choices = tuple(a_vals)
    elif a_form == 4:
        a_choices = np.array(a_vals)
    elif a_form == 5:
        # an arithmetic progression given as a range (with a step)
        start_, step_ = t.pick([1, 2, 5], "a-start"), t.pick([1, 2, 3, 4], "a-step")
        a_choices = range(start_, start_ + step_ * t.int_between(1, 4, "a-len"), step_)
        a_vals = list(a_choices)
    b_is_gen = t.flag(1, 3, "b-generator")
    b_vals = GEN_RANGE if b_is_gen else t.perm(G.POOLS["float"], "b")[: t.int_between(1, 3, "nb")]
    has_c = t.flag(1, 2, "has-c")
    c_vals = t.perm(G.POOLS["str" if kind != "str" else "int"], "c")[: t.int_between(1, 3, "nc")]
    args = ["a", "b"] + (["c"] if has_c else [])
    rconst = {"k": t.pick([3, 6], "k")} if t.flag(1, 2, "runner-const") else {}
    res = {"r": 9} if t.flag(1, 3, "resource") else {}
    fn = calllog.make_fn(kind, args + list(rconst) + list(res) + ["m"], defaults={"m": 0})
    allowed = {"a": list(a_vals), "b": list(b_vals)}
    default_combos = {"a": list(a_vals) if a_choices is None else a_choices,
                      "b": gen_b if b_is_gen else list(b_vals)}
    if has_c:
        allowed["c"] = list(c_vals)
        default_combos["c"] = list(c_vals)
    # the order in which the choices are listed is the caller's (not alphabetical)
    default_combos = {k_: default_combos[k_] for k_ in t.perm(list(default_combos), "combos-order")}
    outs = list(outputs_of(kind, calllog.value(kind, {"a": 1})).keys())
    var_names = outs if len(outs) > 1 else outs[0]
    ctx.t("scenario", {"kind": kind, "engine": engine, "choices": allowed,
                       "b-generator": b_is_gen, "runner-constants": rconst, "resources": res})
    nact = [0]

    def call(role, f, must_succeed=True, oracle="op-raised"):
        import traceback

        nact[0] += 1
        val = exc = None
        with w.actor("{}#{}".format(role, nact[0])):
            try:
                val = f()
            except Exception as e:
                traceback.clear_frames(e.__traceback__)
                exc = e
        if exc is not None and must_succeed:
            raise Violation("{}:{}".format(oracle, role), "{} raised {}: {}".format(
                role, type(exc).__name__, short(str(exc), 300)), site=xyz_site(exc))
        return val, exc

    def new_sampler():
        r = xyzpy.Runner(fn, var_names=var_names, constants=rconst or None,
                         resources=res or None)
        return xyzpy.Sampler(r, data_name=data_name, default_combos=dict(default_combos),
                             engine=engine)

    session = {"s": None}

    def get_s():
        if session["s"] is None:
            session["s"], _ = call("session-start", new_sampler)
        return session["s"]

    model = []  # rows (dicts) acknowledged so far, in order

    def read_disk():
        if not G.rexists(data_name):
            return None
        df, _ = call("fresh-reader", lambda: xyzpy.load_df(data_name, engine=engine),
                     oracle="load_df-raised")
        return df

    def check_after(op, n, mem_df, allowed_now, m_const):
        """table grew by exactly n, prefix unchanged, new rows correct, memory == disk"""
        disk = read_disk()
        if disk is None:
            raise Violation("table-missing", "{}: no table file after the run".format(op))
        rows = table_rows(disk)
        if len(rows) != len(model) + n:
            raise Violation("row-count:" + op,
                            "table has {} rows after appending {} to {}".format(
                                len(rows), n, len(model)))
        for i, (old, new) in enumerate(zip(model, rows)):
            for col, ov in old.items():
                if col not in new or not cell_same(new[col], ov, approx):
                    raise Violation("earlier-row-changed:" + op,
                                    "row {} column {} was {} now {}".format(
                                        i, col, short(ov, 40), short(new.get(col), 40)))
        for r in rows[len(model):]:
            kw = {}
            for a_, vals in allowed_now.items():
                v = plain(r.get(a_))
                hit = [x for x in vals if cell_same(x, v, approx)]
                if not hit:
                    raise Violation("argument-outside-choices:" + op,
                                    "{}={!r} not among {}".format(a_, v, vals))
                kw[a_] = hit[0]
            kw.update(rconst)
            kw.update(res)
            kw["m"] = m_const
            for o, ev in outputs_of(kind, calllog.value(kind, kw)).items():
                if not cell_same(r.get(o), ev, approx):
                    raise Violation("row-output-wrong:" + op,
                                    "row {} has {}={} but the function gives {}".format(
                                        {a_: kw[a_] for a_ in allowed_now}, o,
                                        short(r.get(o), 40), short(ev, 40)))
            # the recorded arguments are complete: runner constants always, per-run
            # constants of a direct run (those given when sowing a crop are the recorded
            # C06 finding 'sow-time-constants-not-recorded' and are not asked for here)
            recorded = dict(rconst)
            if m_const and op == "sample_combos":
                recorded["m"] = m_const
            for ck, cv in recorded.items():
                if ck not in r or not cell_same(r[ck], cv, approx):
                    raise Violation("constant-not-recorded:" + op,
                                    "row {} was computed with {}={} but its column holds {}".format(
                                        {a_: kw[a_] for a_ in allowed_now}, ck, cv,
                                        short(r.get(ck), 40)))
            for rk in res:
                if rk in r and not is_missing(r[rk]):
                    raise Violation("resource-recorded:" + op, "resource {} is a column".format(rk))
        if mem_df is not None:
            mrows = table_rows(mem_df)
            if len(mrows) != len(rows):
                raise Violation("memory-differs-from-disk:" + op,
                                "full_df has {} rows, the file {}".format(len(mrows), len(rows)))
            for i, (a_, b_) in enumerate(zip(mrows, rows)):
                for col in set(a_) | set(b_):
                    if not cell_same(a_.get(col, np.nan), b_.get(col, np.nan), approx):
                        raise Violation("memory-differs-from-disk:" + op,
                                        "row {} column {}: memory {} file {}".format(
                                            i, col, short(a_.get(col), 40), short(b_.get(col), 40)))
        del model[:]
        model.extend(rows)

    nops = t.int_between(1, 6, "nops")
    ncrops = 0
    prev_crop = {}
    for opi in range(nops):
        t.mark()
        op = t.weighted([("sample_combos", 4), ("crop", 3), ("new_session", 2)], "op")
        if op == "new_session":
            ctx.t("new_session")
            session["s"] = None
            prev_crop.clear()
            ctx.stats["op-new_session"] += 1
            continue
        n = t.int_between(1, 5, "n")
        if op == "crop" and t.flag(1, 4, "many-samples"):
            # enough rows for two-digit batch numbers (file names sort 1, 10, 11, 2, ...)
            n = t.int_between(6, 14, "n-large")
        seed = t.choose(1000, "np-seed")
        override = None
        allowed_now = dict(allowed)
        if t.flag(1, 3, "override-combos"):
            # an override replaces the default choices for this run only; it may
            # name values the defaults do not contain
            pool = t.perm(a_vals + [v for v in (21, 22) if v not in a_vals], "a-sub")
            sub = pool[: t.int_between(1, min(3, len(pool)), "na-sub")]
            if t.flag(1, 4, "override-repeats-a-choice"):
                sub = list(sub) + [sub[0]]  # choices are a bag: a repeated one is just likelier
            override = {"a": list(sub)}
            allowed_now["a"] = list(sub)
        m_const = t.pick([0, 4], "m")
        ctx.stats["op-" + op] += 1
        if op == "sample_combos":
            s = get_s()
            kw = {"verbosity": 0}
            if m_const:
                kw["constants"] = {"m": m_const}
            par = t.weighted([(None, 3), (True, 1), (2, 1)], "parallel")
            if par is not None:
                kw["parallel"] = par
            ctx.t("sample_combos", {"n": n, "combos": override, "m": m_const, "np-seed": seed,
                                    "parallel": par})

            def f():
                np.random.seed(seed)
                return s.sample_combos(n, combos=override, **kw)

            last, _ = call("session-op", f, oracle="sample_combos-raised")
            if len(last) != n:
                raise Violation("last_df-length", "sample_combos({}) returned {} rows".format(n, len(last)))
            mem, _ = call("session-read", lambda: s.full_df)
            check_after(op, n, mem, allowed_now, m_const)
        else:
            again = None
            if prev_crop.get("obj") is not None and t.flag(1, 4, "same-crop-object-again"):
                # the session keeps its Crop object and runs another sow / grow / reap cycle
                # with it (the first cycle's reap removed the crop from disk)
                again = prev_crop
                name, ckw = again["name"], dict(again["ckw"])
                n = again["n"]  # (a Crop object keeps its batch layout: the same number of samples)
                ctx.stats["crop-object-reused-for-another-cycle"] += 1
            else:
                ncrops += 1
                name = "sc{}".format(ncrops)
                batching = G.gen_batching(t, n)
                ckw = {}
                if batching["how"] != "none":
                    ckw[batching["how"]] = batching["value"]
            reuse = t.flag(1, 3, "reap-with-session-object") or again is not None
            ctx.t("crop", {"n": n, "combos": override, "m": m_const, "np-seed": seed,
                           "batching": ckw, "reap-by": "session" if reuse else "fresh process"})
            s = get_s()
            holder = {}

            def sow():
                np.random.seed(seed)
                c = again["obj"] if again is not None else s.Crop(name=name, parent_dir=root, **ckw)
                c.sow_samples(n, combos=override, constants={"m": m_const} if m_const else None,
                              verbosity=0)
                holder["crop"] = c

            call("sower", sow, oracle="sow_samples-raised")
            loc = os.path.join(root, ".xyz-" + name)
            B = len(G.read_batch_files(loc))
            order = t.perm(list(range(1, B + 1)), "grow-order")
            for b in order:
                call("grower", lambda b=b: xgrow(
                    b, xyzpy.Crop(name=name, parent_dir=root), verbosity=0),
                    oracle="grow-raised")

            def reap():
                c = holder["crop"] if reuse else xyzpy.Crop(name=name, parent_dir=root)
                df = c.reap()
                return c, df

            (c, df), _ = call("reaper", reap, oracle="reap-raised")
            if len(df) != n:
                raise Violation("reaped-rows-length", "reap returned {} rows for n={}".format(len(df), n))
            mem, _ = call("session-read", lambda: c.farmer.full_df)
            check_after(op, n, mem, allowed_now, m_const)
            if G.rexists(loc):
                raise Violation("crop-left-after-reap", "sampler crop not cleaned up")
            # (only an object of the current session can be used again)
            prev_crop.update(obj=holder["crop"], name=name, ckw=ckw, n=n)
            # (when a fresh process reaped, the session object's cached table is now
            # stale; its next run must re-load before appending)
    ctx.nontrivial = len(model) >= 2
    ctx.key = repr((kind, engine, [x[:70] for x in ctx.trace[1:]]))
