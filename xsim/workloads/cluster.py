"""C16: generated cluster scripts and the xyzpy-grow CLI grow exactly the
intended batches.

A stub scheduler takes the text of Crop.gen_cluster_script(...), checks it
with ``bash -n``, reads the array range from the header and runs one real
``bash <script>`` child per array index (scheduler index variable set) in a
tape-chosen order - some indices twice, some pre-empted before they start and
re-queued.  Children are real OS processes (real python, real xyzpy, real
files) and run one at a time; nothing is injected inside a child.
"""
import os
import re
import sys
import subprocess

from .. import calllog, interpose
from ..model import Sweep, compare_nested, short
from ..world import Violation, HarnessError
from . import cropgen as G
from .crop import xyz_site

NAME = "cl"
PY = sys.executable
INDEX_VAR = {"sge": "SGE_TASK_ID", "pbs": "PBS_ARRAY_INDEX", "slurm": "SLURM_ARRAY_TASK_ID"}
RANGE_RX = {
    "sge": re.compile(r"^#\$ -t (\d+)-(\d+)\s*$", re.M),
    "pbs": re.compile(r"^#PBS -J (\d+)-(\d+)\s*$", re.M),
    "slurm": re.compile(r"^#SBATCH --array=(\d+)-(\d+)\s*$", re.M),
}


def gen_resources(t, scheduler):
    kw = {}
    how = t.choose(4, "time-spelling")
    if how == 1:
        kw["time"] = t.pick([1, 2.5, 12], "time-num")
    elif how == 2:
        kw["time"] = t.pick(["0:30:00", "12:05:30"], "time-str")
    elif how == 3:
        kw["hours"] = t.pick([0, 3], "hours")
        kw["minutes"] = t.pick([20, 59], "minutes")
        if t.flag(1, 2, "seconds"):
            kw["seconds"] = 30
    mem = t.choose(4, "mem-spelling")
    if mem == 1:
        kw["mem"] = t.pick([4, 16], "mem")
    elif mem == 2:
        kw["gigabytes"] = t.pick([2, 8], "gb")
    elif mem == 3 and scheduler == "slurm":
        kw["mem_per_cpu"] = t.pick([1, "2G"], "mem-per-cpu")
    if t.flag(1, 2, "num_procs"):
        kw["num_procs"] = t.pick([1, 2, 4], "nprocs")
    if t.flag(1, 4, "num_threads"):
        kw["num_threads"] = t.pick([1, 2], "nthreads")
        kw.setdefault("num_procs", 2)
    if t.flag(1, 4, "extra-flags"):
        kw["gpu"] = 1
        if t.flag(1, 2, "flag-none"):
            kw["requeue"] = None
    if t.flag(1, 4, "setup"):
        kw["setup"] = "import math; _xyz_ok = math.pi"
    if t.flag(1, 5, "shell-setup"):
        kw["shell_setup"] = "export XSIM_SHELL_SETUP_RAN=1"
    if t.flag(1, 6, "debugging"):
        kw["debugging"] = True
    return kw


NCHILD = [0]


def run_child(cmd, env, cwd, timeout=180):
    NCHILD[0] += 1
    # own session = own process group: a pre-empted job is killed as a whole
    cp = subprocess.run(cmd, env=env, cwd=cwd, capture_output=True, text=True, timeout=timeout,
                        start_new_session=True)
    return cp


def _sweep_dead_semaphores():
    """A job killed with its worker pool cannot unlink the pool's POSIX semaphores
    (/dev/shm/sem.loky-<pid>-*); remove those whose creator is dead."""
    try:
        names = os.listdir("/dev/shm")
    except OSError:
        return
    for nm in names:
        mt = re.match(r"sem\.loky-(\d+)-", nm)
        if not mt:
            continue
        try:
            os.kill(int(mt.group(1)), 0)
        except ProcessLookupError:
            try:
                os.remove(os.path.join("/dev/shm", nm))
            except OSError:
                pass
        except OSError:
            pass


def run_c16(ctx):
    import xyzpy

    t = ctx.tape
    nchild0 = NCHILD[0]
    cfg = {"permute_listing": t.flag(1, 2, "permute")}
    w = ctx.world(cfg)
    root = w.root
    location = os.path.join(root, ".xyz-" + NAME)
    B = t.weighted([(1, 2), (2, 3), (3, 3), (4, 2), (5, 1), (6, 1), (8, 1)], "B")
    per = t.int_between(1, 2, "per-batch")
    kind = t.pick(["scalar", "tuple2", "str"], "kind")
    vals = (G.POOLS["int"] + [11, 12, 13, 14, 15, 16, 17, 18])[: B * per]
    sweep = Sweep(kind, [("a", vals)], None, {"k": 3} if t.flag(1, 3, "const") else {})
    fn = calllog.make_fn(kind, ["a"] + list(sweep.constants))
    nact = [0]

    def call(role, f, oracle="op-raised"):
        import traceback

        nact[0] += 1
        val = exc = None
        with w.actor("{}#{}".format(role, nact[0])):
            try:
                val = f()
            except Exception as e:
                traceback.clear_frames(e.__traceback__)
                exc = e
        if exc is not None:
            raise Violation("{}:{}".format(oracle, role), "{} raised {}: {}".format(
                role, type(exc).__name__, short(str(exc), 300)), site=xyz_site(exc))
        return val

    def sow():
        c = xyzpy.Crop(fn=fn, name=NAME, parent_dir=root, num_batches=B)
        c.sow_combos({"a": vals}, constants=dict(sweep.constants) or None,
                     shuffle=t.pick([False, True], "shuffle"), verbosity=0)

    call("sower", sow, "sow-raised")
    batches = G.read_batch_files(location)
    if len(batches) != B:
        raise HarnessError("expected {} batches".format(B))
    keys = {b: sorted(calllog.key(kw) for kw in kws) for b, kws in batches.items()}
    keys_in_order = {b: [calllog.key(kw) for kw in kws] for b, kws in batches.items()}
    allb = sorted(batches)
    # ------------------------------------------------------------ crop state
    state = t.weighted([("no-results", 2), ("some-results", 2), ("explicit-ids", 2)], "state")
    pre = []
    if state == "explicit-ids" and t.flag(1, 4, "everything-grown-already"):
        pre = list(allb)  # explicit ids then mean: grow these again
    elif state != "no-results" and B > 1:
        pre = t.perm(allb, "pre-grown")[: t.int_between(1, B - 1, "npre")]
    if pre:
        call("pre-grower", lambda: xyzpy.Crop(name=NAME, parent_dir=root).grow(tuple(sorted(pre))),
             "pre-grow-raised")
    present = set(pre)
    explicit = None
    ids_as_range = False
    if state == "explicit-ids":
        n = t.int_between(1, B, "nexplicit")
        explicit = t.perm(allb, "explicit-ids")[:n]
        if t.flag(1, 5, "explicit-run"):
            # a consecutive run of ids, passed the natural way: batch_ids=range(lo, hi + 1)
            lo_ = 1 + t.choose(B, "run-lo")
            hi_ = lo_ + t.choose(B - lo_ + 1, "run-len")
            explicit = list(range(lo_, hi_ + 1))
            ids_as_range = True
    missing = [b for b in allb if b not in present]
    mode = t.pick(["array", "single", "cli"], "mode")
    env = dict(os.environ)
    env.update({"HOME": root, "XSIM_CALLLOG": os.path.join(ctx.base, "child-calls.log"),
                "TQDM_DISABLE": "1"})
    env.pop("SGE_TASK_ID", None)
    # the first case of every batch is slow: with a real worker pool (num_workers)
    # later cases of a batch then finish before it
    slow_path = os.path.join(ctx.base, "slow-keys.json")
    with interpose.real.open(slow_path, "w") as f:
        import json as _json

        _json.dump([[list(x) for x in calllog.key(kws[0])] for kws in batches.values()
                    if len(kws) > 1], f)
    env["XSIM_SLOW_KEYS"] = slow_path
    ctx.t("scenario", {"B": B, "per": per, "kind": kind, "state": state, "pre-grown": sorted(pre),
                       "explicit": explicit, "mode": mode})

    def child_calls_since(pos):
        log = calllog.read_child_log(env["XSIM_CALLLOG"])
        return log[pos:], len(log)

    def check_child(cp, what):
        err = cp.stderr or ""
        out = cp.stdout or ""
        # (the script's exit status is that of its last echo, so the embedded python
        # program's fate has to be read from stderr)
        for bad in ("Traceback (most recent call last)", "SyntaxError", "command not found",
                    "syntax error"):
            if bad in err:
                raise Violation("child-failed:" + what.split(" ")[0],
                                "{}: stderr contains {!r}: ...{}".format(what, bad, err[-400:]))
        return out

    ncalls = 0

    def progress():
        c = xyzpy.Crop(name=NAME, parent_dir=root)
        return c.is_ready_to_reap(), tuple(c.missing_results())

    kill_path = os.path.join(ctx.base, "kill-keys.json")

    def killed_attempt(cmd, e, what, cand_batches):
        """Run the job, pre-empted (SIGKILL to its process group) at the instant it
        starts evaluating a tape-chosen setting of one of cand_batches.  A killed job
        publishes nothing for the batch it was working on, and progress still lists
        that batch as missing.  Returns the batch it died in."""
        nonlocal ncalls
        kb = t.pick(sorted(cand_batches), "kill-batch")
        kk = keys_in_order[kb][t.choose(len(keys_in_order[kb]), "kill-setting")]
        for pth in (kill_path, kill_path + ".fired"):
            if os.path.exists(pth):
                os.remove(pth)
        with interpose.real.open(kill_path, "w") as f:
            import json as _json

            _json.dump([[list(x) for x in kk]], f)
        before_tree = G.snapshot_tree(os.path.join(location, "results")) or {}
        e = dict(e)
        e["XSIM_KILL_KEYS"] = kill_path
        cp = run_child(cmd, e, root)
        fired = os.path.exists(kill_path + ".fired")
        _sweep_dead_semaphores()
        os.remove(kill_path)
        _, ncalls = child_calls_since(ncalls)
        if not fired:
            # the job ended without ever evaluating that setting: if it failed, that is
            # the code under test (reported as for any other job); otherwise the harness
            check_child(cp, what)
            # ... and if it ended normally, it never evaluated a setting of a batch it
            # was asked to grow (every candidate batch is requested or missing)
            raise Violation("job-skipped-requested-batch",
                            "{} ended (rc {}) without ever evaluating a setting of batch {}, which it "
                            "was to grow".format(what, cp.returncode, kb))
        w.fired["job-killed-while-running"] += 1
        ctx.t(what, "pre-empted while evaluating a setting of batch", kb)
        after_tree = G.snapshot_tree(os.path.join(location, "results")) or {}
        created, removed, modified = G.diff_trees(before_tree, after_tree)
        rname = "xyz-result-{}.jbdmp".format(kb)
        if rname in created or rname in modified or removed:
            raise Violation("killed-job-published-result",
                            "{} was killed inside batch {} yet results/ changed: created {} "
                            "modified {} removed {}".format(what, kb, created, modified, removed))
        have = {int(mm.group(1)) for pth in after_tree
                for mm in [re.search(r"xyz-result-(\d+)\.jbdmp$", pth)] if mm}
        ready, miss = call("poller", progress, "progress-raised")
        if set(miss) != set(allb) - have or (kb not in have and kb not in miss) or (ready and miss):
            raise Violation("progress-after-killed-job",
                            "{} killed inside batch {}: results exist for {} but missing_results() = {}, "
                            "ready = {}".format(what, kb, sorted(have), miss, ready))
        present.update(b for b in have if b in cand_batches)
        return kb

    if mode == "cli":
        # ---------------------------------------------------------- xyzpy-grow
        cli = os.path.join(os.path.dirname(PY), "xyzpy-grow")
        extra = []
        nw = t.weighted([(None, 5), (2, 1)], "cli-workers")
        if nw:
            extra += ["--num-workers", str(nw)]
        if t.flag(1, 3, "cli-threads"):
            extra += ["--num-threads", "2"]
        cmd = [PY, "-m", "xyzpy.gen.xyzpy_grow_cli", NAME, "--parent-dir", root] + extra \
            if t.flag(1, 2, "cli-as-module") else [cli, NAME, "--parent-dir", root] + extra
        if missing and t.flag(1, 4, "cli-preempted"):
            # the job is pre-empted while running, then simply submitted again
            killed_attempt(cmd, env, "xyzpy-grow", missing)
            missing = [b for b in missing if b not in present]
        before = G.result_ids(location)
        ctx.t("run", " ".join(os.path.basename(c) if c.startswith("/") else c for c in cmd[:3]), extra)
        cp = run_child(cmd, env, root)
        if cp.returncode != 0:
            raise Violation("cli-exit-status", "xyzpy-grow exited {}: {}".format(
                cp.returncode, (cp.stderr or "")[-400:]))
        check_child(cp, "xyzpy-grow")
        created = G.result_ids(location) - before
        if created != set(missing):
            raise Violation("cli-grew-wrong-batches",
                            "missing {} but xyzpy-grow created results {}".format(missing, sorted(created)))
        calls, ncalls = child_calls_since(ncalls)
        want = sorted(k for b in missing for k in keys[b])
        if sorted(k for _, k in calls) != want:
            raise Violation("cli-evaluations-not-exact",
                            "xyzpy-grow evaluated {} settings, the missing batches hold {}".format(
                                len(calls), len(want)))
        present |= created
        targeted = list(missing)
    else:
        # ------------------------------------------------------ generated script
        scheduler = t.pick(["sge", "pbs", "slurm"], "scheduler")
        res = gen_resources(t, scheduler)
        nw = t.weighted([(None, 6), (2, 1)], "script-workers")
        if nw:
            res["num_workers"] = nw
            res.setdefault("num_procs", 2)
        outdir = os.path.join(root, "Scratch", "output")
        opts = dict(mode=mode, launcher=PY, conda_env=False, output_directory=outdir, **res)
        ids_arg = None if explicit is None else (explicit if t.flag(1, 2, "ids-as-list") else tuple(explicit))
        if ids_as_range:
            ids_arg = range(explicit[0], explicit[-1] + 1)
        ctx.t("gen_cluster_script", scheduler, {"batch_ids": ids_arg, **{k: v for k, v in opts.items()
                                                                      if k not in ("launcher", "output_directory")}})

        def gen():
            c = xyzpy.Crop(name=NAME, parent_dir=root)
            return c.gen_cluster_script(scheduler, batch_ids=ids_arg, **opts)

        script = call("script-writer", gen, "gen_cluster_script-raised")
        spath = os.path.join(ctx.base, "job.sh")
        with interpose.real.open(spath, "w") as f:
            f.write(script)
        cp = run_child(["bash", "-n", spath], env, root)
        if cp.returncode != 0:
            raise Violation("script-not-valid-shell", "bash -n: {}".format(cp.stderr[-300:]))
        targeted = list(explicit) if explicit is not None else list(missing)
        if mode == "array":
            # what the scheduler reads: qsub (PBS) and sbatch stop looking for directives at
            # the first executable line; SGE's qsub scans the whole script for '#$' lines
            visible = script
            if scheduler in ("pbs", "slurm"):
                head = []
                for ln in script.split("\n"):
                    if ln.strip() and not ln.lstrip().startswith("#"):
                        break
                    head.append(ln)
                visible = "\n".join(head) + "\n"
            mr = RANGE_RX[scheduler].search(visible)
            if mr is None:
                if scheduler == "pbs" and len(targeted) == 1:
                    lo, hi = 1, 1  # PBS cannot run arrays of one: plain job, index fixed to 1
                else:
                    raise Violation("array-header-missing",
                                    "no array range in the {} header".format(scheduler))
            else:
                lo, hi = int(mr.group(1)), int(mr.group(2))
            ntasks = hi - lo + 1
            if lo != 1 or ntasks != len(targeted):
                raise Violation("array-range-wrong",
                                "header asks for tasks {}-{} but {} batches are to be grown ({})".format(
                                    lo, hi, len(targeted), targeted))
            # the stub scheduler: any order, some tasks twice, some pre-empted first
            queue = t.perm(list(range(lo, hi + 1)), "task-order")
            extra = [j for j in queue if t.flag(1, 5, "task-twice")]
            if extra:
                w.fired["dup-task"] += len(extra)
            queue = queue + extra
            final = []
            for j in queue:
                if t.flag(1, 6, "preempt"):
                    w.fired["preempt-requeue"] += 1
                    if t.flag(1, 2, "preempt-while-running"):
                        final.append(("kill", j))
                    else:
                        ctx.t("task", j, "pre-empted before start, re-queued")
                        final.append(("requeue", j))
                else:
                    final.append(("run", j))
            final += [("run", j) for kind_, j in final if kind_ != "run"]
            for kind_, j in final:
                if kind_ == "kill":
                    e = dict(env)
                    e[INDEX_VAR[scheduler]] = str(j)
                    killed_attempt(["bash", spath], e, "task {}".format(j), [targeted[j - 1]])
                    continue
                if kind_ != "run":
                    continue
                before = G.snapshot_tree(os.path.join(location, "results")) or {}
                e = dict(env)
                e[INDEX_VAR[scheduler]] = str(j)
                cp = run_child(["bash", spath], e, root)
                out = check_child(cp, "task {}".format(j))
                if cp.returncode != 0:
                    raise Violation("child-exit-status", "task {} exited {}: ...{}".format(
                        j, cp.returncode, (cp.stderr or out)[-200:]))
                after = G.snapshot_tree(os.path.join(location, "results")) or {}
                created, removed, modified = G.diff_trees(before, after)
                want_b = targeted[j - 1]
                touched = {int(re.findall(r"xyz-result-(\d+)\.jbdmp$", p)[0])
                           for p in created + modified if re.search(r"xyz-result-(\d+)\.jbdmp$", p)}
                ctx.t("task", j, "->", sorted(touched))
                # (re-growing an already finished batch rewrites identical bytes)
                if not (touched <= {want_b}) or "xyz-result-{}.jbdmp".format(want_b) not in after:
                    raise Violation("task-grew-wrong-batch",
                                    "array task {} should grow batch {} but wrote results {}".format(
                                        j, want_b, sorted(touched)))
                if removed:
                    raise Violation("task-removed-results", "task {} removed {}".format(j, removed))
                calls, ncalls = child_calls_since(ncalls)
                if sorted(k for _, k in calls) != keys[want_b]:
                    raise Violation("task-evaluations-not-exact",
                                    "task {} (batch {}) evaluated {} settings, the batch holds {}".format(
                                        j, want_b, len(calls), len(keys[want_b])))
                present.add(want_b)
        else:
            if targeted and t.flag(1, 4, "single-preempted"):
                # pre-empted while running, then the same script is submitted again: it
                # grows what was asked for (explicit ids) or what is then still missing
                killed_attempt(["bash", spath], dict(env), "single job", targeted)
                if explicit is None:
                    targeted = [b for b in targeted if b not in present]
            before = G.result_ids(location)
            before_tree = G.snapshot_tree(os.path.join(location, "results")) or {}
            cp = run_child(["bash", spath], dict(env), root)
            out = check_child(cp, "single job")
            if cp.returncode != 0:
                raise Violation("child-exit-status", "single job exited {}: ...{}".format(
                    cp.returncode, (cp.stderr or out)[-200:]))
            after_tree = G.snapshot_tree(os.path.join(location, "results")) or {}
            created, removed, modified = G.diff_trees(before_tree, after_tree)
            touched = {int(re.findall(r"xyz-result-(\d+)\.jbdmp$", p)[0]) for p in created + modified}
            ctx.t("single job ->", sorted(touched))
            have = {int(re.findall(r"xyz-result-(\d+)\.jbdmp$", p)[0]) for p in after_tree
                    if re.search(r"xyz-result-(\d+)\.jbdmp$", p)}
            if not (touched <= set(targeted)) or not (set(targeted) <= have):
                raise Violation("single-job-grew-wrong-batches",
                                "should grow {} but wrote results {}".format(sorted(targeted), sorted(touched)))
            calls, ncalls = child_calls_since(ncalls)
            want = sorted(k for b in targeted for k in keys[b])
            if sorted(k for _, k in calls) != want:
                raise Violation("single-job-evaluations-not-exact",
                                "evaluated {} settings, the requested batches hold {}".format(
                                    len(calls), len(want)))
            present |= set(targeted)
    # ------------------------------------------------------------- afterwards
    ready, miss = call("poller", progress, "progress-raised")
    still = sorted(set(allb) - present)
    if ready != (not still) or list(miss) != still:
        raise Violation("progress-after-jobs",
                        "after the jobs ready={} missing={} but results exist for {}".format(
                            ready, miss, sorted(present)))
    if still:
        call("grower", lambda: xyzpy.Crop(name=NAME, parent_dir=root).grow_missing(), "grow-raised")
    result = call("reaper", lambda: xyzpy.Crop(name=NAME, parent_dir=root).reap(), "reap-raised")
    bad = compare_nested(result, sweep, True)
    if bad is not None:
        raise Violation("reap-after-jobs-differs/" + bad[0], bad[1])
    if w.fired.get("job-killed-while-running"):
        _sweep_dead_semaphores()
    ctx.stats["children"] += NCHILD[0] - nchild0
    ctx.stats["mode-" + mode] += 1
    ctx.nontrivial = True
    ctx.key = repr((B, state, mode, [x for x in ctx.trace[1:3]], len(targeted)))
