"""C01: every combination exactly once, in its own slot - under every
execution strategy and every completion order of a simulated worker pool."""
from .. import calllog, simexec
from ..model import Sweep, walk_nested, ShapeMismatch, same, is_missing, short, plain
from ..world import Violation, HarnessError
from . import cropgen as G
from .crop import xyz_site

KINDS = [("scalar", 4), ("tuple2", 3), ("tuple3", 1), ("array", 1), ("str", 1), ("int", 1),
         ("ndarray", 1), ("ndarray2d", 1), ("intarray", 1), ("npscalar", 1), ("complex", 1)]
# split=True separates along the first axis of each result: tuple entries, array rows
NOUT = {"tuple2": 2, "tuple3": 3, "ndarray": 3, "ndarray2d": 3, "intarray": 3}


def gen_strategy(t, label="strategy"):
    s = t.weighted([("sequential", 2), ("shuffle", 2), ("parallel", 2), ("num_workers", 1),
                    ("executor", 5)], label)
    d = {"how": s}
    if s == "shuffle":
        d["shuffle"] = t.pick([True, 2, 5, 11, 42, 2 ** 32, 3 * 2 ** 32 + 1, 2 ** 64], label + "-seed")
    elif s == "parallel":
        d["parallel"] = t.pick([True, 2, 3], label + "-par")
        if t.flag(1, 3, label + "-shuf"):
            d["shuffle"] = t.pick([True, 3], label + "-seed")
    elif s == "num_workers":
        d["num_workers"] = t.int_between(1, 4, label + "-nw")
    elif s == "executor":
        d["flavour"] = t.pick(["submit", "apply_async", "mpPool"], label + "-flavour")
        d["boundary"] = t.pick(["thread", "process"], label + "-boundary")
        d["workers"] = t.int_between(1, 4, label + "-workers")
        d["fifo"] = t.flag(3, 4, label + "-fifo")
        if t.flag(1, 4, label + "-shuf"):
            d["shuffle"] = t.pick([True, 7], label + "-seed")
    return d


def run_c01(ctx):
    import xyzpy

    t = ctx.tape
    simexec.install()
    execs = []
    simexec.bind(t, ctx.stats, log=execs, default={"boundary": "process", "auto_workers": 3})
    sweep = G.gen_sweep(t, max_n=1024, kinds=KINDS, allow_cases=t.flag(1, 4, "with-cases"),
                        max_args=5, allow_mixed=True,
                        # (the swept function's arguments may be called anything, also what
                        # the library itself calls its own parameters)
                        arg_pool=G.ARG_POOL + ["fn", "executor"])
    kind = sweep.kind
    argnames = sweep.case_args + [a for a, _ in sweep.combos] + list(sweep.constants)
    fn = calllog.make_fn(kind, argnames)
    spell = t.pick(["dict", "pairs", "lists"], "spell")
    if spell == "dict":
        combos = {a: G.spell_values(t, v) for a, v in sweep.combos}
    elif spell == "pairs":
        combos = tuple((a, G.spell_values(t, v, as_tuple=True)) for a, v in sweep.combos)
    else:
        combos = [[a, G.spell_values(t, v)] for a, v in sweep.combos]
    if len(sweep.combos) == 1 and spell == "pairs" and t.flag(1, 2, "single-pair"):
        combos = (sweep.combos[0][0], tuple(sweep.combos[0][1]))  # documented single-tuple spelling
    cases = [dict(c) for c in sweep.cases] if sweep.cases else None
    ctx.t("sweep", {"kind": kind, "combos": sweep.combos, "cases": sweep.cases,
                    "constants": sweep.constants, "N": sweep.n(), "spelling": spell})
    exp = sweep.expected()
    exp_calls = sweep.expected_calls()
    axes = sweep.axes(False)
    direct_order = [frozenset((k, plain(v)) for k, v in loc.items()) for loc, _ in sweep.settings()]
    nstrat = t.int_between(2, 4, "nstrategies")
    keys = []
    for si in range(nstrat):
        st = gen_strategy(t)
        split = kind in NOUT and t.flag(1, 2, "split")
        flat = t.flag(1, 3, "flat")
        kw = {"constants": dict(sweep.constants) or None, "verbosity": 0}
        if cases:
            kw["cases"] = cases
        if split:
            kw["split"] = True
        if flat:
            kw["flat"] = True
        if "shuffle" in st:
            kw["shuffle"] = st["shuffle"]
        ex = None
        if st["how"] == "parallel":
            kw["parallel"] = st["parallel"]
        elif st["how"] == "num_workers":
            kw["num_workers"] = st["num_workers"]
        elif st["how"] == "executor":
            cls = {"submit": simexec.SimExecutor, "apply_async": simexec.SimApplyAsync,
                   "mpPool": simexec.SimMPPool}[st["flavour"]]
            ex = cls(workers=st["workers"], fifo=st["fifo"], boundary=st["boundary"], tape=t)
            kw["executor"] = ex
        ctx.t("strategy", st, "split" if split else "", "flat" if flat else "")
        del calllog.LOG[:]
        del execs[:]
        nreq = len(simexec.REQUESTS)
        try:
            res = xyzpy.combo_runner(fn, combos or None, **kw)
        except Exception as e:
            import traceback

            traceback.clear_frames(e.__traceback__)
            raise Violation("sweep-raised", "{} raised {}: {}".format(
                st, type(e).__name__, short(str(e), 200)), site=xyz_site(e))
        # (i) exactly once each, nothing else
        calls = sorted((k for _, k in calllog.LOG), key=repr)
        if calls != exp_calls:
            extra = [c for c in calls if c not in exp_calls]
            missing = [c for c in exp_calls if c not in calls]
            dup = sorted({c for c in calls if calls.count(c) > 1}, key=repr)
            raise Violation("calls-not-exactly-once",
                            "{}: {} calls for {} settings; unexpected {}, never called {}, "
                            "called more than once {}".format(
                                st["how"], len(calls), len(exp_calls), short(extra, 120),
                                short(missing, 120), short(dup, 120)))
        # worker count handed to the default pool
        if st["how"] == "parallel":
            want = None if st["parallel"] is True else st["parallel"]
            if simexec.REQUESTS[nreq:] != [want]:
                raise Violation("pool-size-not-honoured", "parallel={!r} requested pools {}".format(
                    st["parallel"], simexec.REQUESTS[nreq:]))
        if st["how"] == "num_workers" and simexec.REQUESTS[nreq:] != [st["num_workers"]]:
            raise Violation("pool-size-not-honoured", "num_workers={} requested pools {}".format(
                st["num_workers"], simexec.REQUESTS[nreq:]))
        # (ii) every value in its own slot
        parts = [res]
        pick = [lambda v: v]
        if split:
            n = NOUT[kind]
            if not isinstance(res, tuple) or len(res) != n:
                raise Violation("split-shape", "split=True gave {}".format(short(res, 100)))
            parts = list(res)
            pick = [(lambda v, j=j: v[j]) for j in range(n)]
        for part, pk in zip(parts, pick):
            if flat:
                if not isinstance(part, (tuple, list)) or len(part) != len(direct_order):
                    raise Violation("flat-length", "flat result has {} entries for {} settings".format(
                        len(part) if isinstance(part, (tuple, list)) else "?", len(direct_order)))
                for loc, val in zip(direct_order, part):
                    if not same(val, pk(exp[loc])):
                        owner = [dict(l) for l, v in exp.items() if same(pk(v), val)]
                        raise Violation("wrong-slot/flat",
                                        "{} position of {} holds {}{}".format(
                                            st["how"], dict(sorted(loc)), short(val, 50),
                                            " = value of {}".format(owner[0]) if owner else ""))
            else:
                try:
                    got = list(walk_nested(part, axes))
                except ShapeMismatch as e:
                    raise Violation("nested-shape", "{}: {}".format(st["how"], e))
                for loc, val in got:
                    if loc in exp:
                        if not same(val, pk(exp[loc])):
                            owner = [dict(l) for l, v in exp.items() if same(pk(v), val)]
                            raise Violation("wrong-slot/nested",
                                            "{}: at {} expected {} got {}{}".format(
                                                st["how"], dict(sorted(loc)), short(pk(exp[loc]), 50),
                                                short(val, 50),
                                                " = value of {}".format(owner[0]) if owner else ""))
                    elif not is_missing(val):
                        raise Violation("unrequested-slot-filled", "{}: at {} got {}".format(
                            st["how"], dict(sorted(loc)), short(val, 50)))
        cores = ([ex.core] if ex is not None else []) + [e.core for e in execs]
        inv = sum(c.signature() for c in cores)
        lazy = sum(1 for c in cores for a, b in zip(c.start_order, c.start_order[1:]) if a > b)
        ctx.stats["strategy-" + st["how"]] += 1
        ctx.stats["completion-inversions"] += inv
        if inv:
            ctx.stats["sweeps-with-out-of-order-completion"] += 1
        keys.append((st["how"], st.get("flavour"), st.get("boundary"), min(inv, 20), lazy > 0,
                     bool(kw.get("shuffle")), split, flat))
    ctx.nontrivial = sweep.n() >= 2
    ctx.key = repr((sweep.n(), len(axes), kind, keys))
