"""Runner / Harvester / Sampler descriptions for farmer-backed crops."""
import os

from .. import calllog

# kind -> Runner keyword arguments and the output variable names
VAR_DESC = {
    "scalar": ({"var_names": "x"}, ["x"]),
    "int": ({"var_names": ["x"]}, ["x"]),
    "holes": ({"var_names": "x"}, ["x"]),
    "tuple2": ({"var_names": ["x", "y"]}, ["x", "y"]),
    "array": ({"var_names": "x", "var_dims": {"x": ["t"]}, "var_coords": {"t": [0, 1, 2]}}, ["x"]),
    "scalar+array": ({"var_names": ["x", "z"], "var_dims": {"z": ["p", "q"]},
                      "var_coords": {"p": [0, 1], "q": [5, 6]}}, ["x", "z"]),
    # internal dimension named after a *constant* (recorded as a coordinate)
    "array-constdim": ({"var_names": "x", "var_dims": {"x": ["t"]}}, ["x"]),
    "bool": ({"var_names": "x"}, ["x"]),
    "str": ({"var_names": ("x",)}, ["x"]),
    "dict": ({"var_names": None}, ["u", "v"]),
    "dataset": ({"var_names": None}, ["u", "v"]),
}

DF_KINDS = ("scalar", "int", "tuple2", "bool", "str")


class FarmerSpec:
    """How to (re)build the farmer; nothing here holds xyzpy objects."""

    def __init__(self, role, kind, runner_constants=None, resources=None, attrs=None,
                 data_name=None, engine=None, default_combos=None):
        self.role = role  # 'runner' | 'harvester' | 'sampler'
        self.kind = kind
        self.runner_constants = dict(runner_constants or {})
        self.resources = dict(resources or {})
        self.attrs = dict(attrs or {})
        self.data_name = data_name
        self.engine = engine
        self.default_combos = default_combos

    def describe(self):
        return {"role": self.role, "runner_constants": self.runner_constants,
                "resources": self.resources, "attrs": self.attrs,
                "data_name": os.path.basename(self.data_name) if self.data_name else None,
                "engine": self.engine}

    def runner_kwargs(self):
        kw = dict(VAR_DESC[self.kind][0])
        if self.runner_constants:
            kw["constants"] = dict(self.runner_constants)
        if self.resources:
            kw["resources"] = dict(self.resources)
        if self.attrs:
            kw["attrs"] = dict(self.attrs)
        return kw

    def build(self, fn, fn_args=None, data_name=None):
        import xyzpy

        r = xyzpy.Runner(fn, fn_args=fn_args, **self.runner_kwargs())
        dn = data_name or self.data_name
        if self.role == "runner":
            return r
        if self.role == "harvester":
            return xyzpy.Harvester(r, data_name=dn, engine=self.engine)
        kw = {}
        if self.default_combos is not None:
            kw["default_combos"] = self.default_combos
        return xyzpy.Sampler(r, data_name=dn, engine=self.engine, **kw)

    def file_name(self, data_name=None):
        """where the data really lives on disk"""
        dn = data_name or self.data_name
        if self.role == "harvester":
            ext = {"h5netcdf": ".h5", "joblib": ".dmp"}[self.engine]
            if not any(e in dn for e in (".h5", ".nc", ".dmp", ".zarr")):
                dn = dn + ext
        return dn


def gen_farmer(tape, role, sweep, root, label="farmer", ext_choice=True):
    """Move some of the sweep's constants into the runner (constants /
    resources) and draw storage options."""
    consts = dict(sweep.constants)
    rc, res = {}, {}
    for k in list(consts):
        where = tape.choose(3, label + "-const-where")  # 0 sow-time, 1 runner const, 2 resource
        if where == 0 and os.environ.get("XSIM_NO_SOW_CONST") == "1":
            where = 1
        if where == 1:
            rc[k] = consts[k]
        elif where == 2:
            res[k] = consts[k]
    attrs = {"note": "n1"} if tape.flag(1, 3, label + "-attrs") else {}
    data_name = engine = None
    if role == "harvester":
        engine = tape.pick(["h5netcdf", "joblib"], label + "-engine")
        ext = {"h5netcdf": ".h5", "joblib": ".dmp"}[engine]
        with_ext = (not ext_choice) or tape.flag(2, 3, label + "-ext")
        data_name = os.path.join(root, "hv" + (ext if with_ext else ""))
    elif role == "sampler":
        engine = tape.pick(["pickle", "csv"], label + "-engine")
        data_name = os.path.join(root, "sm." + ("pkl" if engine == "pickle" else "csv"))
    return FarmerSpec(role, sweep.kind, rc, res, attrs, data_name, engine)
