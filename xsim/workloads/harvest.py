"""C05: the harvested dataset is the faithful merge of everything harvested.

Sequential histories of harvests / merges over one data name, every step by a
simulated process (the user's long-lived session, or a brand-new one), against
a dict model  (variable, coordinates) -> value  with the three overwrite
policies.  Values come from the harness's own function evaluated at the
coordinates and a *version* number, so two harvests agree or conflict exactly
when the model says so."""
import os
import itertools

import numpy as np

from .. import calllog, interpose
from ..model import same, short, plain
from ..world import Violation, HarnessError
from . import cropgen as G
from .crop import xyz_site

A_POOL = [1, 2, 3, 4]
A_UNSYNCED = [7, 8]  # coordinates only ever used by un-acknowledged (sync=False) harvests
# labels of one coordinate: ints, strings of different lengths, ints and a float
B_POOLS = {"int": [10, 20, 30], "str": ["p", "qq", "rrrr"], "num": [10, 20.5, 30]}


def val(kind, a, b, ver):
    return calllog.value(kind, {"a": a, "b": b, "ver": ver})


class HarvestModel:
    """durable: what a synced operation acknowledged.  pending: points that
    were only harvested with sync=False (un-acknowledged)."""

    def __init__(self, kind):
        self.kind = kind
        self.vars = ["x"] if kind == "scalar" else ["x", "y"]
        self.durable = {}  # (a, b, z) -> {var: value}
        self.pending = {}
        self.z = None  # extra dimension value after expand_dims

    def key(self, a, b):
        return (plain(a), plain(b), self.z)

    def outputs(self, a, b, ver):
        v = val(self.kind, a, b, ver)
        return {"x": v} if self.kind == "scalar" else {"x": v[0], "y": v[1]}


def ds_points(ds, model):
    """{(a, b, z): {var: value}} of all non-null points of a Dataset"""
    out = {}
    if ds is None or not ds.data_vars:
        return out
    dims = [d for d in ("a", "b", "z") if d in ds.dims]
    labels = {d: ds.coords[d].values.tolist() for d in dims}
    for var in ds.data_vars:
        arr = ds[var]
        vals = arr.values
        # by position, not by label: the labels of a wrong dataset may be anything
        # (mixed types, duplicates) and must not make the oracle itself fail
        for pos in itertools.product(*[range(len(labels[d])) for d in dims]):
            at = dict(zip(dims, pos))
            sel = {d: labels[d][i] for d, i in at.items()}
            v = vals[tuple(at[d] if d in at else slice(None) for d in arr.dims)]
            v = v.item() if getattr(v, "ndim", 1) == 0 else v
            try:
                isnull = v is None or (isinstance(v, float) and np.isnan(v))
            except TypeError:
                isnull = False
            if isnull:
                continue
            k = (plain(sel.get("a")), plain(sel.get("b")), plain(sel.get("z")))
            out.setdefault(k, {})[var] = v
    return out


def compare_points(got, model, what, allow_pending):
    exp = model.durable
    for k, vs in exp.items():
        if k not in got:
            raise Violation(what + "/point-dropped",
                            "harvested point a={} b={} z={} is gone".format(*k))
        for var, ev in vs.items():
            if var not in got[k]:
                raise Violation(what + "/point-dropped",
                                "variable {} at a={} b={} z={} is gone".format(var, *k))
            if not same(got[k][var], ev):
                raise Violation(what + "/point-altered",
                                "variable {} at a={} b={} z={} is {} but the policy-decided "
                                "value is {}".format(var, k[0], k[1], k[2],
                                                     short(got[k][var], 40), short(ev, 40)))
    for k, vs in got.items():
        if k in exp:
            continue
        if allow_pending and k in model.pending:
            for var, gv in vs.items():
                if not same(gv, model.pending[k].get(var)):
                    raise Violation(what + "/unsynced-point-wrong",
                                    "un-synced point a={} b={} holds {} not {}".format(
                                        k[0], k[1], short(gv, 40),
                                        short(model.pending[k].get(var), 40)))
            continue
        raise Violation(what + "/phantom-point",
                        "point a={} b={} z={} = {} was never harvested".format(
                            k[0], k[1], k[2], short(vs, 60)))


def run_c05(ctx):
    import xyzpy
    import xarray as xr

    t = ctx.tape
    cfg = {"bufsize": t.pick([8192, 64], "bufsize"), "permute_listing": t.flag(1, 2, "permute"),
           "mtime_granularity": "tape"}
    w = ctx.world(cfg)
    root = w.root
    kind = t.pick(["scalar", "tuple2"], "kind")
    engine = t.pick(["h5netcdf", "joblib"], "engine")
    ext = {"h5netcdf": ".h5", "joblib": ".dmp"}[engine]
    with_ext = t.flag(1, 2, "with-ext") or os.environ.get("XSIM_C05_FORCE_EXT") == "1"
    data_name = os.path.join(root, "full" + (ext if with_ext else ""))
    file_name = os.path.join(root, "full" + ext)
    btype = t.pick(["int", "str", "num"], "btype")
    B_POOL = B_POOLS[btype]
    model = HarvestModel(kind)
    fn = calllog.make_fn(kind, ["a", "b", "ver"])
    var_names = model.vars if kind != "scalar" else "x"
    ctx.t("scenario", {"kind": kind, "engine": engine, "data_name": os.path.basename(data_name),
                       "b-type": btype})
    nactors = [0]

    def actor(role):
        nactors[0] += 1
        return w.actor("{}#{}".format(role, nactors[0]))

    def call(role, f, must_succeed=True):
        import traceback

        res = exc = None
        with actor(role) as a:
            try:
                res = f()
            except Exception as e:
                traceback.clear_frames(e.__traceback__)
                exc = e
        if exc is not None and must_succeed:
            raise Violation("op-raised:" + role, "{} raised {}: {}".format(
                role, type(exc).__name__, short(str(exc), 300)), site=xyz_site(exc))
        return res, exc

    def new_harvester():
        r = xyzpy.Runner(fn, var_names=var_names, resources={"ver": 0})
        return xyzpy.Harvester(r, data_name=data_name, engine=engine)

    # held: un-synced points that live in THIS session's memory only
    session = {"h": None, "mem": None, "held": {}}

    def get_h():
        if session["h"] is None:
            session["h"], _ = call("session-start", new_harvester)
            session["mem"] = None
        return session["h"]

    def disk_points():
        if not G.rexists(file_name):
            return None

        def f():
            return xyzpy.load_ds(data_name, engine=engine)

        ds, exc = call("fresh-reader", f, must_succeed=False)
        if exc is not None:
            raise Violation("disk-unreadable", "load_ds raised {}: {}".format(
                type(exc).__name__, short(str(exc), 200)), site=xyz_site(exc))
        return ds_points(ds, model)

    def check_state(where, synced):
        """after an acknowledged (synced) op memory == disk == model"""
        dp = disk_points()
        if model.durable and dp is None:
            raise Violation("disk-file-missing",
                            "{}: {} durable points but no file {}".format(
                                where, len(model.durable), os.path.basename(file_name)))
        if dp is not None:
            compare_points(dp, model, "disk:" + where.split(" ")[0], allow_pending=True)
        h = session["h"]
        if h is not None and synced:
            mem, _ = call("session-read", lambda: ds_points(h.full_ds, model))
            compare_points(mem, model, "memory:" + where.split(" ")[0], allow_pending=True)
            if dp is not None and mem != dp:
                # same acknowledged points and values? (un-acknowledged ones may
                # legitimately live in memory only)
                ka = {k for k in mem if k not in model.pending}
                kb = {k for k in dp if k not in model.pending}
                if ka != kb or any(not same(mem[k], dp[k]) for k in ka):
                    raise Violation("memory-differs-from-disk",
                                    "{}: in-memory full_ds and the file disagree: only in memory {} "
                                    "only on disk {}".format(where, sorted(ka - kb, key=repr)[:4],
                                                             sorted(kb - ka, key=repr)[:4]))

    def merged(base, new, policy):
        """-> (result dict, conflict?)"""
        out = {k: dict(v) for k, v in base.items()}
        conflict = False
        for k, vs in new.items():
            if k in out:
                for var, nv in vs.items():
                    if var in out[k] and not same(out[k][var], nv):
                        if policy is None:
                            conflict = True
                        elif policy is True:
                            out[k][var] = nv
                    else:
                        out[k].setdefault(var, nv)
            else:
                out[k] = dict(vs)
        return out, conflict

    nops = t.int_between(1, 8, "nops")
    expanded = False
    for opi in range(nops):
        t.mark()
        op = t.weighted([("harvest_combos", 5), ("harvest_cases", 3), ("add_ds", 2),
                         ("save_merge_ds", 2), ("new_session", 3), ("drop_sel", 1),
                         ("expand_dims", 1)], "op")
        if op == "expand_dims" and (expanded or not model.durable or opi < nops - 3):
            op = "harvest_combos"
        if op == "drop_sel" and not model.durable:
            op = "harvest_cases"
        if op in ("drop_sel", "expand_dims") and not session.get("insync"):
            # these act on the session's in-memory copy: only meaningful when the
            # session's last operation was a synced one (memory == disk)
            op = "harvest_combos"
        if op == "new_session":
            ctx.t("new_session")
            session["h"] = None
            session["insync"] = False
            session["held"] = {}
            ctx.stats["op-new_session"] += 1
            continue
        policy = t.pick([None, True, False], "overwrite")
        ver = t.weighted([(0, 3), (1, 1), (2, 1), (10, 1)], "version")
        ctx.stats["op-" + op] += 1
        if op in ("harvest_combos", "harvest_cases", "add_ds", "save_merge_ds"):
            avals = t.perm(A_POOL, "a-vals")[: t.int_between(1, 3, "na")]
            bvals = t.perm(B_POOL, "b-vals")[: t.int_between(1, 3, "nb")]
            if op == "harvest_cases":
                pts = [(a, b) for a in avals for b in bvals]
                pts = t.perm(pts, "case-order")[: t.int_between(1, min(4, len(pts)), "ncases")]
            else:
                pts = [(a, b) for a in avals for b in bvals]
            new = {model.key(a, b): model.outputs(a, b, ver) for a, b in pts}
            sync = True
            if op in ("harvest_combos", "harvest_cases") and t.flag(1, 8, "confirm-unsynced-region"):
                # a synced harvest over the region the un-acknowledged harvests use (same
                # version, so it can only agree with them): it may add nothing new to what
                # the session holds in memory - and must be saved all the same
                ver = 0
                avals = t.perm(A_UNSYNCED, "a-unsynced-c")[: t.int_between(1, 2, "na-uc")]
                held_now = sorted((k for k in session["held"] if k[2] == model.z), key=repr)
                if held_now and t.flag(1, 2, "confirm-a-held-point"):
                    # exactly a point this session already holds un-synced
                    a_, b_, _ = held_now[t.choose(len(held_now), "held-point")]
                    avals, bvals = [a_], [b_]
                pts = [(a, b) for a in avals for b in bvals]
                if op == "harvest_cases":
                    pts = pts[: t.int_between(1, len(pts), "ncases-uc")]
                new = {model.key(a, b): model.outputs(a, b, ver) for a, b in pts}
                ctx.stats["synced-harvest-in-unsynced-region"] += 1
            elif op in ("harvest_combos", "harvest_cases") and t.flag(1, 5, "unsynced"):
                # un-acknowledged harvests live in their own coordinate region (and
                # one version), so they can never interact with acknowledged data:
                # later they may be present or absent, but never wrong
                sync = False
                policy = None
                ver = 0
                avals = t.perm(A_UNSYNCED, "a-unsynced")[: t.int_between(1, 2, "na-u")]
                pts = [(a, b) for a in avals for b in bvals]
                if op == "harvest_cases":
                    pts = pts[: t.int_between(1, len(pts), "ncases-u")]
                new = {model.key(a, b): model.outputs(a, b, ver) for a, b in pts}
            ctx.t(op, {"points": pts, "version": ver, "overwrite": policy, "sync": sync})
            h = get_h() if op != "save_merge_ds" else None
            result, conflict = merged(dict(model.durable), new, policy)
            if not sync:
                conflict = False

            def build_ds():
                data = {}
                for var in model.vars:
                    arr = np.full((len(avals), len(bvals)), np.nan)
                    for (a, b) in pts:
                        arr[avals.index(a), bvals.index(b)] = model.outputs(a, b, ver)[var]
                    data[var] = (("a", "b"), arr)
                ds = xr.Dataset(data, coords={"a": list(avals), "b": list(bvals)})
                if model.z is not None:
                    ds = ds.expand_dims("z")
                    ds.coords["z"] = [model.z]
                return ds

            def body():
                if op == "save_merge_ds":
                    return xyzpy.save_merge_ds(build_ds(), data_name, overwrite=policy,
                                               engine=engine)
                h.runner.resources = {"ver": ver}
                if op == "harvest_combos":
                    return h.harvest_combos({"a": list(avals), "b": list(bvals)},
                                            sync=sync, overwrite=policy, verbosity=0)
                if op == "harvest_cases":
                    # (dict cases: the key order of each dict is its own - a dict is a mapping)
                    spelled = [({"b": b, "a": a} if t.flag(1, 3, "case-key-order") else {"a": a, "b": b})
                               for a, b in pts] if t.flag(1, 2, "case-dicts") \
                        else [(a, b) for a, b in pts]
                    return h.harvest_cases(spelled, sync=sync, overwrite=policy, verbosity=0)
                return h.add_ds(build_ds(), sync=sync, overwrite=policy)

            before_disk = G.snapshot_tree(root)
            file_existed = G.rexists(file_name)
            _, exc = call("session-op" if h is not None else "script", body, must_succeed=False)
            if conflict:
                ctx.stats["merge-conflicts"] += 1
                if exc is None:
                    raise Violation("conflict-not-raised:" + op,
                                    "conflicting data under the default policy was merged silently")
                # (any error counts as a refusal; xarray's MergeError today)
                ctx.stats["refusal-" + type(exc).__name__] += 1
                after = G.snapshot_tree(root)
                if set(after or {}) != set(before_disk or {}) or any(
                        (after or {}).get(k) != v for k, v in (before_disk or {}).items()
                        if not os.path.basename(k).startswith(".tmp-")):
                    raise Violation("conflict-changed-disk:" + op,
                                    "a refused merge changed the files: {}".format(
                                        G.diff_trees(before_disk, after)))
                check_state("after-refused-" + op, synced=(h is not None))
                continue
            if exc is not None:
                raise Violation("op-raised:" + op, "{} raised {}: {}".format(
                    op, type(exc).__name__, short(str(exc), 300)), site=xyz_site(exc))
            if sync:
                model.durable = result
                if op != "save_merge_ds" and session["held"]:
                    # The only documented way un-synced points get lost is the reload
                    # from the data file at the start of a synced operation.  If there
                    # was no file yet there is nothing to reload: what the session
                    # holds in memory is merged and saved with the new data, so those
                    # points are acknowledged now.
                    if not file_existed:
                        for k, v in session["held"].items():
                            model.durable.setdefault(k, v)
                        ctx.stats["unsynced-acknowledged-by-first-save"] += 1
                    session["held"] = {}
                if op == "save_merge_ds":
                    # a bare-file merge behind the session's back: the session's
                    # memory is stale until its next synced operation
                    session["insync"] = False
                    check_state("after-" + op, synced=False)
                else:
                    session["insync"] = True
                    check_state("after-" + op, synced=True)
            else:
                for k, v in new.items():
                    model.pending[k] = v
                    session["held"][k] = v
                ctx.stats["unsynced-harvests"] += 1
                session["insync"] = False
                check_state("after-unsynced-" + op, synced=False)
        elif op == "drop_sel":
            h = get_h()
            a = t.pick(sorted({k[0] for k in model.durable}), "drop-a")
            ctx.t("drop_sel", {"a": a})
            call("session-op", lambda: h.drop_sel(a=a))
            model.durable = {k: v for k, v in model.durable.items() if k[0] != a}
            model.pending = {k: v for k, v in model.pending.items() if k[0] != a}
            check_state("after-drop_sel", synced=True)
        elif op == "expand_dims":
            h = get_h()
            ctx.t("expand_dims", {"z": 5})
            call("session-op", lambda: h.expand_dims("z", 5))
            model.z = 5
            model.durable = {(k[0], k[1], 5): v for k, v in model.durable.items()}
            model.pending = {(k[0], k[1], 5): v for k, v in model.pending.items()}
            expanded = True
            check_state("after-expand_dims", synced=True)
    ctx.nontrivial = nops >= 2
    ctx.key = repr((kind, engine, with_ext, [x[:60] for x in ctx.trace[1:]]))
