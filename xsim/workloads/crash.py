"""C10: kill a simulated process at every file-operation boundary of a
victim phase (sow / re-sow / grow / reap), then probe and recover.

Level: fault enumeration inside seeded scenarios - the crash sites of the
victim phase are enumerated, scenarios / write splits / second crashes are
seeded.
"""
import os
import shutil

from .. import calllog, interpose
from ..model import compare_nested, short, plain, same, is_missing
from ..world import Violation, HarnessError
from . import cropgen as G
from . import farmers as F
from .crop import (CropMachine, xyz_site, check_dataset, outputs_of)

MAX_SITES = int(os.environ.get("XSIM_MAX_SITES", "150"))


def copy_tree(src, dst):
    if os.path.exists(dst):
        shutil.rmtree(dst)
    shutil.copytree(src, dst, symlinks=True)


def restore_tree(snap, root):
    """make root's contents identical to snap (harness-side, real I/O)"""
    for name in interpose.real.listdir(root):
        p = os.path.join(root, name)
        if os.path.isdir(p) and not os.path.islink(p):
            shutil.rmtree(p)
        else:
            interpose.real.remove(p)
    for name in interpose.real.listdir(snap):
        s = os.path.join(snap, name)
        d = os.path.join(root, name)
        if os.path.isdir(s):
            shutil.copytree(s, d)
        else:
            shutil.copy2(s, d)


def rows_self_consistent(df, m, what, new_only_from=0, approx=False):
    """every row from index new_only_from on: arguments among the allowed
    choices and outputs == the function's value at exactly those arguments"""
    import math

    sw = m.sc.sweep
    kind = m.sc.kind
    allowed = {a: [plain(x) for x in v] for a, v in sw.combos}
    consts = dict(sw.constants)
    rows = [dict(r) for _, r in df.iloc[new_only_from:].iterrows()]
    for r in rows:
        kw = {}
        for a, vals in allowed.items():
            if a not in r:
                raise Violation(what + "/column-missing", "no column {}".format(a))
            v = plain(r[a])
            hit = [x for x in vals if same(x, v)]
            if not hit:
                raise Violation(what + "/outside-choices", "{}={!r} not among {}".format(a, v, vals))
            kw[a] = hit[0]
        kw.update(consts)
        outs = outputs_of(kind, calllog.value(kind, kw))
        for o, ev in outs.items():
            gv = r.get(o)
            ok = same(gv, ev)
            if not ok and approx and isinstance(gv, float) and isinstance(ev, float):
                ok = math.isclose(gv, ev, rel_tol=1e-12)
            if not ok:
                raise Violation(what + "/wrong-output",
                                "row {} has {}={} but the function gives {}".format(
                                    {a: kw[a] for a in allowed}, o, short(gv, 40), short(ev, 40)))
    return len(rows)


def crash_state_hash(root, victim, role):
    """the durable state a killed process left behind: which files exist and
    whether each is empty / partial-sized (names with uuids normalised)"""
    import re
    import hashlib

    items = []
    for d, _, files in os.walk(root):
        for f in sorted(files):
            p = os.path.join(d, f)
            rel = os.path.relpath(p, root)
            rel = re.sub(r"[0-9a-f]{32}", "U", rel)
            try:
                n = os.path.getsize(p)
            except OSError:
                n = -1
            items.append((rel, 0 if n == 0 else (1 if n < 64 else 2)))
    return hashlib.md5(repr((victim, role, sorted(items))).encode()).hexdigest()[:12]


class CrashRun:
    def __init__(self, ctx):
        import xyzpy

        self.xyz = xyzpy
        self.ctx = ctx
        t = self.t = ctx.tape
        role = t.weighted([(None, 3), ("runner", 1), ("harvester", 3), ("sampler", 2)], "role")
        self.role = role
        if role == "sampler":
            kinds = [("scalar", 2), ("tuple2", 1)]
        elif role in ("runner", "harvester"):
            kinds = [("scalar", 3), ("tuple2", 1), ("array", 1)]
        else:
            kinds = [("scalar", 3), ("tuple2", 1), ("str", 1), ("array", 1)]
        m = self.m = CropMachine(
            ctx, kinds=kinds, max_n=16 if ctx.params.get("tier") == "thorough" else 10, max_batches=5,
            farmer_roles=[role] if role else None,
            allow_cases=(role != "sampler"), ext_choice=False,
            world_cfg={"max_steps": 400000})
        self.w = m.w
        self.fspec = m.fspec
        self.snap = os.path.join(ctx.base, "snap")
        self.crash_snap = os.path.join(ctx.base, "crash")
        self.nsamples = t.int_between(2, 6, "nsamples") if role == "sampler" else None
        self.pre_ds = None
        self.pre_rows = None
        self.victim_crop = None  # the Crop object the victim worked with (for same-session retries)

    # ------------------------------------------------------------- phases
    def first_sow(self):
        if self.role == "sampler":
            self.m.sow_samples(self.nsamples)
        else:
            self.m.sow()

    def resow_body(self, crop=None):
        """the sow call as a user would repeat it (new session; or, crop given, the
        same session on the very object whose sow failed)"""
        m = self.m
        import numpy as np

        if crop is None:
            crop = m.new_sow_crop()
        self.victim_crop = crop
        if self.role == "sampler":
            np.random.seed(self.t.choose(1000, "np-seed-resow"))
            crop.sow_samples(self.nsamples, combos={a: list(v) for a, v in m.sc.sweep.combos},
                             constants=m.sow_constants() or None, verbosity=0)
        else:
            m.do_sow(crop)

    def prestate(self, victim):
        m, t = self.m, self.t
        xyz = self.xyz
        fspec = self.fspec
        if self.role == "harvester" and t.flag(2, 3, "pre-data"):
            from .reapfail import make_pre_dataset

            # needs the sweep only; the crop need not exist yet
            self.pre_ds = make_pre_dataset(m, conflict=False)

            def f():
                xyz.save_ds(self.pre_ds.copy(deep=True), fspec.data_name, engine=fspec.engine)

            m.call("earlier-session", f, oracle="pre-save-raised")
        if self.role == "sampler" and t.flag(2, 3, "pre-rows"):
            import pandas as pd

            self.pre_rows = pd.DataFrame([{"zz": 1.0}, {"zz": 2.0}])

            def f():
                xyz.manage.save_df(self.pre_rows, fspec.data_name, engine=fspec.engine)

            m.call("earlier-session", f, oracle="pre-save-raised")
        if victim == "sow":
            return
        self.first_sow()
        allb = sorted(m.batches)
        if victim == "reap":
            m.grow_op(ids=allb, how="crop_grow")
            self.grown = set(allb)
        else:
            k = t.int_between(0, max(0, m.B - 1), "pre-grown")
            pre = t.perm(allb, "pre-grow-ids")[:k]
            if pre:
                m.grow_op(ids=sorted(pre), how="crop_grow")
            self.grown = set(pre)

    def victim_body(self, victim):
        """-> callable executed inside the victim actor"""
        from xyzpy.gen.cropping import grow as xgrow

        m, t = self.m, self.t
        if victim == "sow" or victim == "resow":
            if victim == "sow":
                # first sow: mirror CropMachine.sow without the harness bookkeeping
                return self.resow_body
            return self.resow_body
        allb = sorted(m.batches)
        missing = [b for b in allb if b not in self.grown]
        nw = t.weighted([(None, 3), (2, 1)], "victim-nw")
        kw = {} if nw is None else {"num_workers": nw}
        if victim == "grow_fn":
            b = t.pick(missing or allb, "victim-batch")
            self.ctx.t("victim grows", b, kw)
            return lambda: xgrow(b, self.keep(m.load_crop()), verbosity=0, **kw)
        if victim == "crop_grow":
            n = t.int_between(1, len(allb), "victim-n")
            ids = t.perm(allb, "victim-ids")[:n]
            self.ctx.t("victim grows", ids, kw)
            return lambda: self.keep(m.load_crop()).grow(tuple(ids), **kw)
        if victim == "grow_missing":
            self.ctx.t("victim grows missing", missing, kw)
            return lambda: self.keep(m.load_crop()).grow_missing(**kw)
        if victim == "reap":
            return lambda: self.keep(m.load_crop()).reap()
        raise HarnessError(victim)

    def keep(self, crop):
        self.victim_crop = crop
        return crop

    # ------------------------------------------------------------ recovery
    def recover(self, victim, tag, second_kill=None, same_session=False):
        """The documented recovery, every step by a fresh simulated process -
        or, same_session (only after a fault the victim survived: disk full), with
        the step that repeats the failed call made on the victim's own Crop object.
        second_kill = (step name, site) kills that step once.  Returns the
        reap result, ('killed', step) when the second kill fired, or
        ('delivered',) when a harvester / sampler crop is gone after a killed
        reap: the data had been saved and the clean-up completed, there is
        nothing left to recover."""
        m = self.m
        if victim == "reap" and self.role in ("harvester", "sampler") \
                and not G.rexists(m.location):
            self.ctx.stats["reap-had-delivered"] += 1
            return ("delivered",)

        def need_resow():
            try:
                c = m.load_crop()
                if not c.is_prepared():
                    return True
                # the directory structure is part of what sowing creates
                if not os.path.isdir(os.path.join(c.location, "results")):
                    return True
                return c.num_sown_batches != c.num_batches
            except Exception:
                return True  # unreadable settings: the sown files are incomplete

        val, _ = m.call("recover-inspect", need_resow, oracle="inspect-raised")
        resow = val or victim in ("sow", "resow")
        plan = (["resow"] if resow else []) + ["check_bad", "grow_missing", "reap"]
        old = self.victim_crop if same_session else None
        for step in plan:
            body = {
                "resow": self.resow_body,
                "check_bad": lambda: m.load_crop().check_bad(),
                "grow_missing": lambda: m.load_crop().grow_missing(),
                "reap": lambda: (lambda c: (c, c.reap()))(m.load_crop()),
            }[step]
            if old is not None:
                if step == "resow" and victim in ("sow", "resow"):
                    body = lambda: self.resow_body(crop=old)
                elif step == "grow_missing" and victim in ("grow_fn", "crop_grow", "grow_missing"):
                    body = lambda: old.grow_missing()
                elif step == "reap" and victim == "reap":
                    body = lambda: (old, old.reap())
            kill_at = None
            if second_kill is not None and second_kill[0] == step:
                kill_at = second_kill[1]
            res = exc = None
            with m.actor("recover-" + step, kill_at=kill_at) as a:
                try:
                    res = body()
                except Exception as e:
                    import traceback

                    traceback.clear_frames(e.__traceback__)
                    exc = e
            if a.dead:
                self.w.probes["second-crash-in-recovery"] += 1
                return ("killed", step)
            if exc is not None:
                raise Violation(
                    "recovery-failed:" + step,
                    "{} crash state: recovery step {} raised {}: {}".format(
                        tag, step, type(exc).__name__, short(str(exc), 200)),
                    site=xyz_site(exc))
            if step == "resow":
                m.batches = G.read_batch_files(m.location)
                m.B = len(m.batches)
                if self.role == "sampler":
                    m.sample_kwargs = [kw for b in sorted(m.batches) for kw in m.batches[b]]
        return res

    # -------------------------------------------------------------- oracles
    def check_data_survives(self, tag):
        """harvester / sampler: whatever was on disk before the victim started
        is still there, readable by a fresh process (old or new state)."""
        m, fspec, xyz = self.m, self.fspec, self.xyz
        if self.role == "harvester" and self.pre_ds is not None:
            def f():
                return xyz.load_ds(fspec.data_name, engine=fspec.engine)

            disk, exc = m.call("fresh-reader", f, must_succeed=False)
            if exc is not None:
                raise Violation("earlier-harvest-unreadable",
                                "{}: data file no longer loads: {}: {}".format(
                                    tag, type(exc).__name__, short(str(exc), 160)),
                                site=xyz_site(exc))
            for var in self.pre_ds.data_vars:
                a = self.pre_ds[var]
                try:
                    b = disk[var].sel({d: a[d].values for d in a.dims})
                except KeyError as e:
                    raise Violation("earlier-harvest-lost",
                                    "{}: previously saved coordinates gone: {}".format(tag, e))
                if not same(b.transpose(*a.dims).values, a.values):
                    raise Violation("earlier-harvest-lost",
                                    "{}: variable {} of earlier data changed".format(tag, var))
        if self.role == "sampler" and self.pre_rows is not None:
            def f():
                return xyz.load_df(fspec.data_name, engine=fspec.engine)

            disk, exc = m.call("fresh-reader", f, must_succeed=False)
            if exc is not None:
                raise Violation("earlier-samples-unreadable",
                                "{}: table no longer loads: {}: {}".format(
                                    tag, type(exc).__name__, short(str(exc), 160)),
                                site=xyz_site(exc))
            if len(disk) < len(self.pre_rows) or not same(
                    list(disk["zz"].iloc[:len(self.pre_rows)]), list(self.pre_rows["zz"])):
                raise Violation("earlier-samples-lost",
                                "{}: the first rows of the table changed".format(tag))
        return None

    def check_final(self, res, tag, killed_reap=False):
        m, fspec, xyz = self.m, self.fspec, self.xyz
        sw = m.sc.sweep
        kind = m.sc.kind
        # the history class the violation signature carries: which phase was
        # killed - "reap-killed" whenever a reap died (victim or recovery step),
        # because that is where a sampler's clean-up can be interrupted
        if getattr(self, "fault", "kill") == "enospc" and not killed_reap:
            what = "{}:{}-hit-full-disk".format(self.role or "raw", self.victim)
        else:
            what = "{}:{}".format(self.role or "raw", "reap-killed"
                                  if (killed_reap or self.victim == "reap") else self.victim)
        if res == ("delivered",):
            crop = val = None
        else:
            crop, val = res
        if val is None:
            pass
        elif self.role is None:
            bad = compare_nested(val, sw, m.sort_combos)
            if bad is not None:
                raise Violation("recovered-reap-differs/" + bad[0], "{}: {}".format(tag, bad[1]))
        elif self.role in ("runner", "harvester"):
            check_dataset(val, sw, m.sort_combos, None, kind, "recovered-dataset")
        if self.role == "harvester":
            disk, _ = m.call("fresh-reader",
                             lambda: xyz.load_ds(fspec.data_name, engine=fspec.engine),
                             oracle="load-after-recovery-raised")
            try:
                sub = disk.sel({a: list(v) for a, v in sw.axes(True)}) \
                    if self.pre_ds is not None else disk
            except KeyError as e:
                raise Violation("recovered-on-disk/coords-absent",
                                "{}: the crop's coordinates are not in the data file after "
                                "recovery: {}".format(tag, e))
            check_dataset(sub, sw, m.sort_combos, None, kind, "recovered-on-disk")
        if self.role == "sampler":
            approx = False  # (csv round-trips exactly since fix: load_df float_precision)
            if val is not None:
                rows_self_consistent(val, m, "recovered-rows:" + what, approx=False)
            disk, _ = m.call("fresh-reader",
                             lambda: xyz.load_df(fspec.data_name, engine=fspec.engine),
                             oracle="load-after-recovery-raised")
            npre = 0 if self.pre_rows is None else len(self.pre_rows)
            n = rows_self_consistent(disk, m, "recovered-table:" + what, new_only_from=npre,
                                     approx=approx)
            if n != self.nsamples:
                raise Violation("recovered-table-length:" + what,
                                "{}: table holds {} new rows after recovery, an uninterrupted "
                                "run gives {}".format(tag, n, self.nsamples))
        self.check_data_survives(tag + " after recovery")

    def probe_plain_reap(self, tag):
        """at the crash state a plain reap() raises or is exact"""
        m = self.m
        sw = m.sc.sweep

        def f():
            c = m.load_crop()
            return c.reap()

        val, exc = m.call("probe-reaper", f, must_succeed=False)
        if exc is not None:
            self.ctx.stats["probe-refused"] += 1
            return
        self.ctx.stats["probe-returned"] += 1
        if self.role is None:
            bad = compare_nested(val, sw, m.sort_combos)
            if bad is not None:
                raise Violation("crash-state-reap-wrong/" + bad[0],
                                "{}: plain reap() returned without error but {}".format(tag, bad[1]))
        elif self.role in ("runner", "harvester"):
            try:
                check_dataset(val, sw, m.sort_combos, None, m.sc.kind, "crash-state-reap-wrong")
            except Violation as v:
                v.msg = "{}: plain reap() returned without error but {}".format(tag, v.msg)
                raise
        else:
            rows_self_consistent(val, m, "crash-state-reap-wrong")
            if len(val) != self.nsamples:
                raise Violation("crash-state-reap-wrong/rows",
                                "{}: plain reap() returned {} rows of {}".format(
                                    tag, len(val), self.nsamples))


VICTIMS = ["sow", "resow", "grow_fn", "crop_grow", "grow_missing", "reap"]


def run_c10(ctx):
    t = ctx.tape
    r = CrashRun(ctx)
    m, w = r.m, r.w
    idx = ctx.params.get("run_index")
    victim = VICTIMS[idx % len(VICTIMS)] if idx is not None else t.pick(VICTIMS, "victim")
    if victim == "resow" and r.role == "sampler":
        # re-sowing a sampler crop draws new random cases; doing that on top of
        # existing results is not a recovery step and not an idempotent re-sow
        victim = "sow"
    r.victim = victim
    ctx.t("victim phase", victim, "role", r.role)
    ctx.stats["victim-" + victim] += 1
    r.prestate(victim)
    copy_tree(w.root, r.snap)
    body = r.victim_body(victim)
    # 1. fault-free execution of the victim: count its interposed operations
    kinds = []

    def record(world, actor, kind_, path, detail):
        if actor.name.startswith("victim-dry"):
            kinds.append(kind_)

    w.observers.append(record)
    with m.actor("victim-dry") as a:
        try:
            body()
        except Exception as e:
            raise Violation("victim-raised-fault-free", "{}: {}: {}".format(
                victim, type(e).__name__, short(str(e), 200)), site=xyz_site(e))
    w.observers.remove(record)
    K = a.nops
    # fault kind of this scenario: a kill before operation k (3 of 4 scenarios), or a
    # full disk - ENOSPC from the k-th operation if it is a kernel write (the process
    # then fails with an exception, or swallows it, but is not killed)
    fault = "enospc" if t.flag(1, 4, "fault-kind") else "kill"
    r.fault = fault
    ctx.stats["sites"] += K
    if victim in ("sow", "resow"):
        # needed by the oracles when the victim is the first sow
        m.batches = G.read_batch_files(m.location)
        m.B = len(m.batches)
        if r.role == "sampler":
            m.sample_kwargs = [kw for b in sorted(m.batches) for kw in m.batches[b]]
    only = ctx.params.get("only_site")
    if only is not None:
        sites = [only]
    elif fault == "enospc":
        sites = [i + 1 for i, kd in enumerate(kinds) if kd == "write"][:MAX_SITES]
    else:
        cap = MAX_SITES * (3 if ctx.params.get("tier") == "thorough" else 1)
        if K <= cap:
            sites = list(range(1, K + 1))
        else:
            step = K / float(cap)
            sites = sorted({1 + int(i * step) for i in range(cap)} | {K})
    ctx.stats["sites-enumerated"] += len(sites)
    ctx.t("fault", fault, "- sites", K, "enumerated", len(sites))
    ctx.stats["fault-" + fault] += 1
    import errno as _errno
    import traceback as _tb

    for k in sites:
        restore_tree(r.snap, w.root)
        r.victim_crop = None
        if fault == "enospc":
            fired0 = sum(v for kk, v in w.fired.items() if kk.startswith("io-error"))
            swallowed = True
            with m.actor("victim") as a:
                a.err_at = (k, _errno.ENOSPC, ("write",))
                try:
                    body()
                except Exception as e:  # the process failed with an error: fine
                    _tb.clear_frames(e.__traceback__)
                    swallowed = False
            if sum(v for kk, v in w.fired.items() if kk.startswith("io-error")) == fired0:
                ctx.stats["site-beyond-end"] += 1
                continue
            if swallowed:
                ctx.stats["disk-full-error-not-propagated"] += 1
            last = "write"
            tag = "{} hit a full disk at its write {}/{}{}".format(
                victim, k, K, " (and returned normally)" if swallowed else "")
            ctx.stats["disk-full-failures"] += 1
        else:
            with m.actor("victim", kill_at=k) as a:
                try:
                    body()
                except Exception as e:
                    raise Violation("victim-raised-before-kill", "{} site {}: {}: {}".format(
                        victim, k, type(e).__name__, short(str(e), 200)), site=xyz_site(e))
            if not a.dead:
                ctx.stats["site-beyond-end"] += 1
                continue
            last = w.log[-3][1] if len(w.log) >= 3 else "?"
            tag = "{} killed at site {}/{}".format(victim, k, K)
            ctx.stats["crashes"] += 1
        ctx.distinct.add(crash_state_hash(w.root, victim, r.role))
        try:
            _after_crash(ctx, r, victim, tag, k)
        except Violation as v:
            v.details = dict(v.details or {})
            v.details["reduce"] = {"only_site": k}
            v.details["site"] = k
            v.details["sites"] = K
            ctx.t("VIOLATION at fault site", k, "of", K, "(", fault, "; event before: {})".format(last))
            raise
    ctx.nontrivial = True
    ctx.key = repr((victim, r.role, m.sc.N, getattr(m, "B", None), m.sc.kind, K))


def _after_crash(ctx, r, victim, tag, k):
    t = ctx.tape
    m, w = r.m, r.w
    # the data that was on disk before the victim began must still be there
    r.check_data_survives(tag)
    # a plain reap at the crash state: refuse, or be exact (on a copy)
    if G.rexists(m.location):
        copy_tree(w.root, r.crash_snap)
        try:
            r.probe_plain_reap(tag)
        finally:
            restore_tree(r.crash_snap, w.root)
    # recovery, optionally killed once more
    second = None
    if t.flag(1, 4, "second-kill"):
        second = (t.pick(["resow", "check_bad", "grow_missing", "reap"], "second-step"),
                  1 + t.choose(40, "second-site"))
    same = False
    if r.fault == "enospc" and r.victim_crop is not None:
        # the victim is still alive: its session may repeat the failed call on the same object
        same = t.flag(1, 2, "recover-in-same-session")
        if same:
            ctx.stats["recoveries-in-the-same-session"] += 1
            tag += ", retried in the same session"
    res = r.recover(victim, tag, second_kill=second, same_session=same)
    killed_reap = False
    if isinstance(res, tuple) and res and res[0] == "killed":
        tag2 = tag + ", then recovery step {} killed at its site {}".format(res[1], second[1])
        killed_reap = res[1] == "reap"
        r.check_data_survives(tag2)
        # the user now recovers from the death of *that* step: a re-sow is forced
        # only if the step that died was itself the re-sow
        res = r.recover(res[1], tag2)
        tag = tag2
    r.check_final(res, tag, killed_reap=killed_reap)
