"""C06: a crop attached to a Runner / Harvester / Sampler reaps what calling
the farmer directly gives (twin run on twin storage)."""
import os

import numpy as np

from .. import calllog, interpose
from ..model import same, short, plain
from ..world import Violation, HarnessError
from . import cropgen as G
from . import farmers as F
from .crop import CropMachine, xyz_site


def norm_ds(ds):
    """dimension order is not part of 'the same labelled dataset'"""
    return ds.transpose(*sorted(ds.dims, key=str))


def explain_ds_diff(a, b):
    try:
        import xarray as xr

        xr.testing.assert_identical(a, b)
    except AssertionError as e:
        return short(str(e), 700)
    return "?"


def classify_ds_diff(a, b, sow_const):
    """-> short class of the first difference between crop-side a and direct b"""
    only_b = set(b.attrs) - set(a.attrs)
    only_a = set(a.attrs) - set(b.attrs)
    if set(a.coords) != set(b.coords):
        return "coords:{}".format(",".join(sorted(map(str, set(a.coords) ^ set(b.coords)))))
    if set(a.data_vars) != set(b.data_vars):
        return "variables"
    if not a.drop_attrs().identical(b.drop_attrs()) if hasattr(a, "drop_attrs") else False:
        return "values"
    if only_b and only_b <= set(sow_const) and not only_a:
        return "attrs-missing:sow-time-constants"
    if only_a or only_b:
        return "attrs-keys"
    return "attrs-values-or-data"


def strip_ds(ds, names):
    out = ds.copy()
    for k in names:
        out.attrs.pop(k, None)
    return out


def strip_df(df, names):
    return df.drop(columns=[c for c in names if c in df.columns])


FINDING_DS = "sow-time-constants-not-recorded:dataset"
FINDING_DF = "sow-time-constants-not-recorded:table"


def compare_ds(a, b, sow_const, deferred, what):
    """crop-side a vs direct b.  A difference confined to attributes named like
    a constant given at sow time is the recorded finding (deferred to the end
    of the run so that it masks nothing); anything else is a violation now."""
    a, b = norm_ds(a), norm_ds(b)
    if a.identical(b):
        return
    a2, b2 = strip_ds(a, sow_const), strip_ds(b, sow_const)
    if sow_const and a2.identical(b2):
        deferred.append(Violation(FINDING_DS, explain_ds_diff(a, b)))
        return
    raise Violation(what + "/" + classify_ds_diff(a2, b2, {}), explain_ds_diff(a2, b2))


def compare_df(a, b, sow_const, deferred, what):
    bad = rows_equal(a, b)
    if not bad:
        return
    a2, b2 = strip_df(a, sow_const), strip_df(b, sow_const)
    bad2 = rows_equal(a2, b2)
    if sow_const and bad2 is None:
        deferred.append(Violation(FINDING_DF, bad))
        return
    raise Violation(what, bad2 or bad)


def canon_rows(df):
    cols = sorted(df.columns, key=str)
    rows = [tuple((c, plain(r[c])) for c in cols) for _, r in df.iterrows()]
    return cols, sorted(rows, key=repr)


def rows_equal(a, b):
    ca, ra = canon_rows(a)
    cb, rb = canon_rows(b)
    if ca != cb:
        return "columns differ: {} vs {}".format(ca, cb)
    if len(ra) != len(rb):
        return "{} rows vs {}".format(len(ra), len(rb))
    for x, y in zip(ra, rb):
        for (c, u), (_, v) in zip(x, y):
            if not same(u, v):
                return "row {} vs {}".format(short(dict(x), 160), short(dict(y), 160))
    return None


def run_c06(ctx):
    import xyzpy
    from xyzpy.gen.cropping import grow as xgrow

    t = ctx.tape
    role = t.pick(["runner", "harvester", "sampler"], "role")
    if role == "sampler":
        kinds = [("scalar", 2), ("tuple2", 1), ("int", 1), ("str", 1)]
    else:
        kinds = [("scalar", 3), ("tuple2", 2), ("array", 1), ("scalar+array", 1), ("dict", 1),
                 ("dataset", 1), ("int", 1), ("bool", 1), ("array-constdim", 1), ("holes", 1)]
    m = CropMachine(ctx, kinds=kinds, max_n=16, max_batches=6, farmer_roles=[role],
                    allow_cases=(role != "sampler"), ext_choice=True,
                    world_cfg={"mtime_granularity": "tape"}, farmer_ctor_choice=True)
    w = m.w
    sw = m.sc.sweep
    kind = m.sc.kind
    fspec = m.fspec
    if kind == "array-constdim":
        # the internal dimension's values are a constant the function receives
        fspec.runner_constants["t"] = [0, 1, 2]
        m.argnames.append("t")
        m.fn = calllog.make_fn(kind, m.argnames)
        m.sc.farmer = fspec.describe()
    if role == "harvester":
        # an unrecorded 'version' argument: a second crop can then disagree with
        # what the first one harvested, which is what overwrite policies are for
        fspec.resources["v"] = 0
        m.argnames.append("v")
        m.fn = calllog.make_fn(kind, m.argnames)
        m.sc.farmer = fspec.describe()
    # a constant given at sow time may repeat the name of a stored runner
    # constant or resource and then takes precedence for this run (as the
    # constants= argument of run_combos / harvest_combos / sample_combos does)
    stored = [k for k in list(fspec.runner_constants) + list(fspec.resources) if k not in ("t", "v")]
    if stored and t.flag(1, 3, "sow-overrides-stored"):
        k = t.pick(sorted(stored), "override-name")
        old = {**fspec.runner_constants, **fspec.resources}[k]
        m.sow_overrides = {k: [x for x in (3, 6, 9, 12) if x != old][t.choose(3, "override-val")]}
        ctx.t("sow-time override of stored", m.sow_overrides)
    ctx.t("farmer", fspec.describe())
    twin_name = None
    if fspec.data_name:
        d, b = os.path.split(fspec.data_name)
        twin_name = os.path.join(d, "twin-" + b)
    twin = {"f": None}

    def get_twin():
        if twin["f"] is None:
            twin["f"] = fspec.build(m.fn, data_name=twin_name)
        return twin["f"]

    policy = t.pick([None, True, False], "overwrite") if role == "harvester" else None
    to_df = role == "runner" and kind in F.DF_KINDS and t.flag(1, 3, "to_df")
    rounds = 1 if role == "runner" else t.int_between(1, 3, "rounds")
    if kind in ("bool", "str") and role == "harvester":
        # merging such results at disjoint coordinates NaN-pads an object array that
        # netCDF cannot store - in the direct harvest just the same; not C06's subject
        rounds = 1
    # Every crop of a run sweeps the same grid plus a one-valued "round tag" grid
    # argument g, so that crops write to disjoint coordinates of the shared storage
    # (losing one crop's data cannot hide behind another crop's identical data).
    if rounds > 1:
        sw.combos.append(("g", [0]))
        m.argnames.append("g")
        m.fn = calllog.make_fn(kind, m.argnames)
    if t.flag(1, 4, "decorated-fn"):
        # what the user runs is a functools.wraps wrapper whose results differ from the
        # wrapped function's: the crop must grow the wrapper, not what is underneath
        m.fn = calllog.make_fn(kind, m.argnames, decorated=True)
        ctx.stats["decorated-fn"] += 1
    interleaved = rounds > 1 and t.flag(1, 2, "sow-all-first")
    ctx.t("plan", {"crops": rounds, "sow-all-before-reaping": interleaved})
    deferred = []
    st = [dict(name=("crp", "crp2", "crp3")[r], g=r, conflict=False) for r in range(rounds)]

    def select(r):
        """point the machine at crop r"""
        d = st[r]
        m.NAME = d["name"]
        m.location = os.path.join(m.root, ".xyz-" + d["name"])
        if rounds > 1:
            sw.combos[-1] = ("g", [d["g"]])
        for k in ("batches", "B", "long_crop", "sow_crop"):
            if k in d:
                setattr(m, k, d[k])
        if "v" in d:
            fspec.resources["v"] = d["v"]

    def remember(r):
        for k in ("batches", "B", "long_crop", "sow_crop"):
            st[r][k] = getattr(m, k, None)

    def combos_given():
        return dict(sw.combos) if m.sc.spell == "dict" else tuple(
            (a, tuple(v)) for a, v in sw.combos)

    def do_sow(r):
        d = st[r]
        if r == 1 and not interleaved and role == "harvester" and kind not in ("bool", "holes") \
                and t.flag(1, 3, "second-crop-conflicts"):
            # same coordinates as the first crop but a new 'version' of the function:
            # every point conflicts (bool results of two versions can coincide, and so
            # can results that are nan at some settings)
            d["g"] = 0
            d["v"] = 1
            d["conflict"] = policy is None
            ctx.t("second crop: same coordinates, version 1 of the function")
        select(r)
        # the user's session keeps its farmer object, or builds a new one
        m.reuse_farmer = r > 0 and t.flag(1, 2, "same-farmer-object")
        if m.reuse_farmer and m.farmer_obj is not None and role == "harvester":
            # (the session may have switched to a new version of its function)
            m.farmer_obj.runner.resources = dict(fspec.resources)
        d["seed"] = t.choose(1000, "np-seed-twin")
        if role == "sampler":
            d["n"] = t.int_between(1, 6, "nsamples")
            _sow_samples(m, d["n"], d["seed"])
        else:
            m.sow()
        remember(r)

    def do_grow(r):
        select(r)
        order = t.perm(sorted(m.batches), "grow-order")
        while order:
            k = t.int_between(1, len(order), "grow-chunk")
            chunk, order = order[:k], order[k:]
            m.grow_op(ids=chunk, how=t.pick(["crop_grow", "grow_fn"], "grow-how")
                      if len(chunk) == 1 else "crop_grow")

    def do_reap(r):
        d = st[r]
        select(r)
        conflict = d["conflict"]
        seed = d["seed"]
        n = d.get("n")
        crop, which = m.crop_for("reap-reuse")
        ctx.t("reap", d["name"], {"overwrite": policy, "to_df": to_df}, which)
        if twin["f"] is not None and role == "harvester":
            twin["f"].runner.resources = dict(fspec.resources)

        def reap():
            c = crop if crop is not None else m.load_crop()
            if to_df:
                return c, c.reap_runner(c.farmer, to_df=True)
            if role == "harvester":
                return c, c.reap(overwrite=policy)
            return c, c.reap()

        val_, exc_ = m.call("reaper", reap, oracle="reap-raised", must_succeed=not conflict)
        # ------------------------------------------------------------ twin side
        sow_const = m.sow_constants()
        cg = combos_given()
        if conflict:
            # default policy + conflicting data: both the crop's reap and the
            # direct harvest must refuse, and leave the same file behind
            if exc_ is None:
                raise Violation("conflicting-reap-not-refused",
                                "second crop with conflicting data and overwrite=None: reap "
                                "returned / raised {!r}".format(exc_))
            _, exc2 = m.call("direct-run", lambda: _direct_conflict(get_twin(), cg, sw, sow_const),
                             must_succeed=False)
            if exc2 is None:
                raise HarnessError("twin did not conflict: {!r}".format(exc2))
            d1, _ = m.call("fresh-reader", lambda: xyzpy.load_ds(fspec.data_name, engine=fspec.engine),
                           oracle="load-raised")
            d2, _ = m.call("fresh-reader", lambda: xyzpy.load_ds(twin_name, engine=fspec.engine),
                           oracle="load-raised")
            compare_ds(d1, d2, sow_const, deferred,
                       "harvested-file-differs-from-direct/after-refused-merge")
            if not G.rexists(m.location):
                raise Violation("crop-deleted-by-refused-reap", "the conflicting crop is gone")
            ctx.stats["conflicting-second-crop-refused"] += 1
            return
        (c, got) = val_

        def direct():
            f = get_twin()
            kw = {"verbosity": 0}
            if role == "sampler":
                np.random.seed(seed)
                if sow_const:
                    kw["constants"] = dict(sow_const)
                return f.sample_combos(n, combos={a: list(v) for a, v in sw.combos}, **kw)
            if sow_const:
                kw["constants"] = dict(sow_const)
            if to_df:
                kw["to_df"] = True
            if m.sc.shuffle["value"] and m.sc.api == "sow_combos" and not sw.cases:
                kw["shuffle"] = m.sc.shuffle["value"]
            runner = f if role == "runner" else f.runner
            if sw.cases and not sw.combos:
                cases = [dict(c_) for c_ in sw.cases]
                if role == "harvester":
                    f.harvest_cases(cases, overwrite=policy, **kw)
                    return f.last_ds
                return runner.run_cases(cases, **kw)
            if sw.cases:
                kw["cases"] = [dict(c_) for c_ in sw.cases]
            if role == "harvester":
                f.harvest_combos(cg, overwrite=policy, **kw)
                return f.last_ds
            return runner.run_combos(cg, **kw)

        want, _ = m.call("direct-run", direct, oracle="direct-run-raised")
        # ------------------------------------------------------------- compare
        if role == "sampler" or to_df:
            compare_df(got, want, sow_const, deferred, "reaped-table-differs-from-direct")
            last = c.farmer._last_df if role == "runner" else c.farmer.last_df
            if last is not got:
                raise Violation("last-result-not-recorded", "farmer's last_df is not the reaped table")
        else:
            compare_ds(got, want, sow_const, deferred, "reaped-dataset-differs-from-direct")
            if c.farmer.last_ds is not got:
                raise Violation("last-result-not-recorded",
                                "farmer.last_ds is not the reaped dataset")
        if role == "harvester":
            d1, _ = m.call("fresh-reader", lambda: xyzpy.load_ds(fspec.data_name, engine=fspec.engine),
                           oracle="load-raised")
            d2, _ = m.call("fresh-reader", lambda: xyzpy.load_ds(twin_name, engine=fspec.engine),
                           oracle="load-raised")
            compare_ds(d1, d2, sow_const, deferred, "harvested-file-differs-from-direct")
            full = c.farmer.full_ds
            if not norm_ds(full).identical(norm_ds(d1)):
                raise Violation("full_ds-differs-from-file", explain_ds_diff(norm_ds(full), norm_ds(d1)))
        if role == "sampler":
            d1, _ = m.call("fresh-reader", lambda: xyzpy.load_df(fspec.data_name, engine=fspec.engine),
                           oracle="load-raised")
            d2, _ = m.call("fresh-reader", lambda: xyzpy.load_df(twin_name, engine=fspec.engine),
                           oracle="load-raised")
            compare_df(d1, d2, sow_const, deferred, "sample-file-differs-from-direct")
        if G.rexists(m.location):
            raise Violation("crop-left-after-reap", "farmer crop not cleaned up after a full reap")

    if interleaved:
        for r in range(rounds):
            do_sow(r)
        for r in range(rounds):
            do_grow(r)
            do_reap(r)
    else:
        for r in range(rounds):
            do_sow(r)
            do_grow(r)
            do_reap(r)
    ctx.stats["crops-{}".format(rounds)] += 1
    if interleaved:
        ctx.stats["sown-all-before-reaping"] += 1
    ctx.nontrivial = m.B >= 1
    ctx.key = repr((role, kind, m.sc.N, m.B, m.sc.api, fspec.describe(), rounds, interleaved,
                    to_df, policy))
    if deferred:
        raise deferred[0]


def _direct_conflict(f, combos_given, sw, sow_const):
    kw = {"verbosity": 0}
    if sow_const:
        kw["constants"] = dict(sow_const)
    if sw.cases and not sw.combos:
        return f.harvest_cases([dict(c_) for c_ in sw.cases], **kw)
    if sw.cases:
        kw["cases"] = [dict(c_) for c_ in sw.cases]
    return f.harvest_combos(combos_given, **kw)


def _sow_samples(m, n, seed):
    """CropMachine.sow_samples with a pinned np.random seed (shared with the twin)"""
    crop = m.new_sow_crop()
    m.long_crop = m.sow_crop = crop
    combos = {a: list(v) for a, v in m.sc.sweep.combos}
    m.ctx.t("sow_samples", n, "np-seed", seed)

    def f():
        np.random.seed(seed)
        crop.sow_samples(n, combos=combos, constants=m.sow_constants() or None, verbosity=0)

    m.call("sower", f, oracle="sow-raised")
    m.batches = G.read_batch_files(m.location)
    m.B = len(m.batches)
