"""xsim - deterministic simulation with fault injection for xyzpy.

See /verif/DESIGN.md.  One integer (the derived seed) decides everything a run
does: generated scenario and operations, actor scheduling, write splitting,
faults, directory listing order, completion order of simulated executors.
"""
