"""World: one simulated run's private directory, clock, actors, event log and
fault plan.  The interposition layer (xsim.interpose) calls ``World.op`` before
every file-system operation an actor performs; that single function is the
yield point, the crash point and the I/O-error point.
"""
import os
import errno
import traceback
import hashlib
import threading
import collections


class SimCrash(BaseException):
    """The current actor (= simulated process) has been killed."""


class SimAbort(BaseException):
    """The whole run is being torn down (step cap, harness timeout)."""


class Violation(Exception):
    """An oracle of a property failed.

    oracle : short stable identifier of the oracle
    site   : where in xyzpy (exception type / function) - part of the signature
    msg    : human readable
    """

    def __init__(self, oracle, msg, site="", details=None):
        Exception.__init__(self, "{}: {}".format(oracle, msg))
        self.oracle = oracle
        self.site = site
        self.msg = msg
        self.details = details or {}

    def signature(self):
        return "{}/{}".format(self.oracle, self.site) if self.site else self.oracle


class HarnessError(Exception):
    """Something is wrong with the machinery, never with xyzpy."""


class Actor:
    """A simulated process.  Sequential workloads run it on the calling thread,
    the race workload gives each actor its own baton-passing thread."""

    _vpid = 40000

    def __init__(self, world, name):
        self.world = world
        self.name = name
        self.dead = False
        self.nops = 0
        self.kill_at = None  # die just before performing op number kill_at
        self.err_at = None  # (opnumber, errno): raise OSError instead of op
        self.ident = None
        Actor._vpid += 1
        self.vpid = 40000 + len(world.actors) + 1
        self.uuid_ctr = 0
        # thread-mode fields
        self.thread = None
        self.go = None
        self.finished = False
        self.started = False
        self.exc = None
        self.result = None
        self.wake_at = None
        self.pending = None
        self.prio = 0

    def __repr__(self):
        return "<Actor {}>".format(self.name)


_CHANGING = frozenset(("open-w", "open-a", "open-x", "write", "truncate", "unlink", "rmdir",
                       "mkdir", "rename"))


class World:
    MAX_LOG = 4000

    def __init__(self, tape, root, cfg=None):
        self.tape = tape
        self.root = os.path.realpath(root)
        self.root_prefix = self.root.rstrip("/") + "/"
        self.cfg = {
            "bufsize": 8192,  # userspace buffer of buffered files
            "split_writes": False,  # partial kernel writes chosen by tape
            "permute_listing": False,
            "op_cost": 0.001,  # simulated seconds per interposed op
            "max_steps": 200000,
            "h5_chunks": 3,
        }
        if cfg:
            self.cfg.update(cfg)
        # granularity of the simulated file times, in events: 1 = every change visible in
        # the timestamps; larger = changes within one tick share a timestamp (file systems
        # stamp with 1 ms .. 2 s resolution, NFS caches attributes); "tape" = seeded per run
        g = self.cfg.get("mtime_granularity", 1)
        if g == "tape":
            g = tape.weighted([(1, 3), (40, 1), (10 ** 9, 1)], "mtime-granularity")
        self.mtime_gran = int(g)
        self.clock = 0.0
        self.actors = []
        self.by_thread = {}
        self.sched = None
        self.aborting = False
        self.steps = 0
        self._digest = hashlib.sha256()
        self.log = []
        self.log_dropped = 0
        self.fired = collections.Counter()  # faults that actually fired
        self.probes = collections.Counter()  # rare conditions reached
        self.opcounts = collections.Counter()
        self.fault_hook = None  # callable(world, actor, kind, path, detail) -> None|'kill'|OSError
        self.observers = []  # callables(world, actor, kind, path, detail) run before op
        self.scratch = None
        # simulated file times: path -> ns.  Real timestamps would be a clock the
        # simulator does not own (and tmpfs/ext4 stamp with jiffy granularity, so two
        # changes microseconds apart look like none); here every change gets the
        # unique, monotone time of its event.
        self.mtimes = {}

    # ------------------------------------------------------------- actors
    def new_actor(self, name):
        a = Actor(self, name)
        self.actors.append(a)
        return a

    def current(self):
        return self.by_thread.get(threading.get_ident())

    class _ActorCtx:
        def __init__(self, world, actor):
            self.w = world
            self.a = actor

        def __enter__(self):
            ident = threading.get_ident()
            if ident in self.w.by_thread:
                raise HarnessError("nested actor on one thread")
            self.a.ident = ident
            self.w.by_thread[ident] = self.a
            self.w.event(self.a, "actor-start", "", None)
            return self.a

        def __exit__(self, et, ev, tb):
            self.w.by_thread.pop(self.a.ident, None)
            if tb is not None:
                # Drop the locals of every frame the exception unwound through,
                # now and by reference counting.  Otherwise harness code that
                # keeps the exception creates a cycle (exception -> traceback ->
                # frame -> exception) that can hold a BytesIO.getbuffer() view of
                # joblib's pure-python pickler; CPython 3.12's cyclic GC crashes
                # clearing such a view (bytesiobuf_releasebuffer).
                traceback.clear_frames(tb)
            if et is not None and issubclass(et, SimCrash):
                self.w.event(self.a, "actor-killed", "", None)
                return True  # the process is gone; the harness carries on
            self.w.event(self.a, "actor-end", "", None if et is None else et.__name__)
            return False

    def actor(self, name, kill_at=None):
        """Context manager: run the body as a fresh simulated process on the
        calling thread.  A SimCrash raised inside is swallowed (the process
        died); check ``actor.dead`` afterwards."""
        a = self.new_actor(name)
        a.kill_at = kill_at
        return World._ActorCtx(self, a)

    # ---------------------------------------------------------- event log
    def rel(self, path):
        if isinstance(path, str) and path.startswith(self.root_prefix):
            return path[len(self.root_prefix):]
        if path == self.root:
            return "."
        return path

    def event(self, actor, kind, path, detail):
        ev = (actor.name if actor is not None else "-", kind, self.rel(path), detail)
        self._digest.update(repr(ev).encode())
        if len(self.log) < self.MAX_LOG:
            self.log.append(ev)
        else:
            self.log_dropped += 1

    def note(self, what, detail=None):
        """Oracle observations also go into the digest."""
        self.event(None, "note:" + what, "", detail)

    def digest(self):
        return self._digest.hexdigest()[:32]

    # ------------------------------------------------------------ the op
    def op(self, actor, kind, path, detail=None):
        """Called by the interposition layer *before* an operation is
        performed.  May raise SimCrash (actor killed before the op), OSError
        (injected I/O error), SimAbort; may switch to another actor."""
        if self.aborting:
            raise SimAbort()
        if actor.dead:
            raise SimCrash()
        actor.nops += 1
        self.steps += 1
        self.clock += self.cfg["op_cost"]
        self.opcounts[kind] += 1
        self.event(actor, kind, path, detail)
        if self.steps > self.cfg["max_steps"]:
            self.abort("step-cap")
            raise SimAbort()
        for ob in self.observers:
            ob(self, actor, kind, path, detail)
        # scheduling first: a kill lands "while the actor is parked here"
        if self.sched is not None:
            self.sched.yield_point(actor, kind, path)
            if self.aborting:
                raise SimAbort()
        if actor.kill_at is not None and actor.nops == actor.kill_at:
            self.kill(actor, kind)
        if actor.err_at is not None and actor.nops >= actor.err_at[0] and (
                len(actor.err_at) < 3 or kind in actor.err_at[2]):
            # (with a kind filter: the first operation of that kind at or after the index)
            eno = actor.err_at[1]
            actor.err_at = None
            self.fired["io-error@" + kind] += 1
            self.event(actor, "FAULT-io-error", path, eno)
            raise OSError(eno, os.strerror(eno), path)
        if self.fault_hook is not None:
            f = self.fault_hook(self, actor, kind, path, detail)
            if f == "kill":
                self.kill(actor, kind)
            elif isinstance(f, BaseException):
                self.fired["io-error@" + kind] += 1
                self.event(actor, "FAULT-io-error", path, getattr(f, "errno", None))
                raise f

        if kind in _CHANGING:
            self._note_change(kind, path, detail)

    SIM_EPOCH_NS = 1700000000 * 10 ** 9

    def _note_change(self, kind, path, detail):
        """(end of op(): the operation is now certain to be performed)"""
        from . import interpose

        ns = self.SIM_EPOCH_NS + (self.steps // self.mtime_gran) * self.mtime_gran * 1000
        mt = self.mtimes
        parent = os.path.dirname(path) if isinstance(path, str) else None
        if kind in ("open-w", "open-a", "open-x"):
            try:
                interpose.real.lstat(path)
                if kind == "open-w":
                    mt[path] = ns
            except OSError:
                mt[path] = mt[parent] = ns
        elif kind in ("write", "truncate"):
            mt[path] = ns
        elif kind in ("unlink", "rmdir"):
            mt[parent] = ns
            mt.pop(path, None)
        elif kind == "mkdir":
            mt[path] = mt[parent] = ns
        elif kind == "rename" and isinstance(detail, str):
            dst = detail if detail.startswith("/") else os.path.join(self.root, detail)
            mt[parent] = mt[os.path.dirname(dst)] = ns
            if path in mt:
                mt[dst] = mt.pop(path)

    def sim_times(self, path, st):
        """os.stat_result with the simulated times of path"""
        ns = self.mtimes.get(path, self.SIM_EPOCH_NS)
        cls, (seq, extra) = st.__reduce__()[:2]
        sec = ns // 10 ** 9
        seq = tuple(seq[:7]) + (sec, sec, sec)
        extra = dict(extra)
        for k in ("st_atime", "st_mtime", "st_ctime"):
            if k in extra:
                extra[k] = ns / 1e9
        for k in ("st_atime_ns", "st_mtime_ns", "st_ctime_ns"):
            if k in extra:
                extra[k] = ns
        return cls(seq, extra)

    def kill(self, actor, kind):
        actor.dead = True
        self.fired["kill@" + kind] += 1
        self.event(actor, "FAULT-kill", "", kind)
        raise SimCrash()

    def abort(self, why):
        if not self.aborting:
            self.aborting = True
            self.event(None, "ABORT", "", why)
            if self.sched is not None:
                self.sched.wake_all()

    # -------------------------------------------------------------- time
    def sleep(self, actor, seconds):
        if actor.dead:
            raise SimCrash()
        self.event(actor, "sleep", "", round(float(seconds), 6))
        self.probes["actor-slept"] += 1
        if self.sched is not None:
            self.sched.sleep(actor, seconds)
        else:
            self.clock += max(0.0, seconds)
            self.steps += 1
            if self.steps > self.cfg["max_steps"]:
                self.abort("step-cap")
                raise SimAbort()

    # ------------------------------------------------------- listing order
    def order_listing(self, names):
        names = sorted(names)
        if not self.cfg["permute_listing"] or len(names) < 2:
            return names
        mode = self.tape.choose(5, "listing")
        if mode == 0:
            return names
        if mode == 1:
            return names[::-1]
        if mode == 2:
            k = 1 + self.tape.choose(len(names) - 1, "listing-rot")
            return names[k:] + names[:k]
        salt = str(self.tape.choose(16, "listing-salt"))
        return sorted(
            names, key=lambda n: hashlib.md5((salt + n).encode()).digest()
        )


def enospc():
    return OSError(errno.ENOSPC, os.strerror(errno.ENOSPC))
