"""Process-wide interposition of the Python-level I/O entry points.

Every patched function delegates to the original unless
  * a World is active in this process, and
  * the calling thread is one of its actors, and
  * the path lies under the world's private root.
So the harness itself, imports, h5py's own C I/O etc. are untouched.

Interposed operations call ``World.op`` *before* acting: that is the yield
point / crash point / error point.  A dead actor's operations do nothing and
re-raise SimCrash, so ``with``/``finally`` code that runs while the crash
unwinds cannot flush or delete anything.
"""
import io
import os
import sys
import random
import hashlib
import tempfile
import time
import uuid
import shutil
import builtins
import threading

from .world import SimCrash, SimAbort, HarnessError


class _Real:
    pass


real = _Real()
_installed = False
_world = None  # the active World of this process (one at a time)


def set_world(w):
    global _world
    _world = w


def get_world():
    return _world


def _ctx(path):
    """-> (world, actor, abspath) if this call is to be simulated, else None"""
    w = _world
    if w is None:
        return None
    a = w.by_thread.get(threading.get_ident())
    if a is None:
        return None
    try:
        p = os.fspath(path)
    except TypeError:
        return None
    if not isinstance(p, str):
        return None
    if not p.startswith("/"):
        p = os.path.join(real.getcwd(), p)
    p = os.path.normpath(p)
    if not (p.startswith(w.root_prefix) or p == w.root):
        return None
    if w.aborting:
        raise SimAbort()
    if a.dead:
        raise SimCrash()
    return w, a, p


# --------------------------------------------------------------------- files


class SimRaw(io.RawIOBase):
    """Unbuffered file on a real fd; every kernel-level read/write/close is an
    interposed operation.  Python's own Buffered*/TextIOWrapper layers sit on
    top exactly as for a real file, so bytes still in the userspace buffer are
    lost when the owning actor is killed."""

    def __init__(self, world, actor, fd, path, mode, readable, writable):
        io.RawIOBase.__init__(self)
        self._w = world
        self._a = actor
        self._fd = fd
        self._path = path
        self.name = path
        self.mode = mode
        self._readable = readable
        self._writable = writable

    def _live(self):
        w = self._w
        return (
            _world is w
            and not self._a.dead
            and not w.aborting
            and w.by_thread.get(threading.get_ident()) is self._a
        )

    def readable(self):
        return self._readable

    def writable(self):
        return self._writable

    def seekable(self):
        return True

    def fileno(self):
        return self._fd

    def isatty(self):
        return False

    def readinto(self, b):
        if self._a.dead:
            raise SimCrash()
        if self._live():
            self._w.op(self._a, "read", self._path, len(b))
        data = real.read(self._fd, len(b))
        n = len(data)
        b[:n] = data
        return n

    def write(self, b):
        mv = memoryview(b).cast("B")
        n = len(mv)
        if self._a.dead or self._w.aborting:
            return n  # dropped: the process is gone
        if not self._live():
            return real.write(self._fd, mv)
        w = self._w
        w.op(self._a, "write", self._path, n)
        k = n
        if w.cfg["split_writes"] and n > 1:
            how = w.tape.choose(4, "wsplit")
            if how == 1:
                k = max(1, n // 2)
            elif how == 2:
                k = 1 + w.tape.choose(n - 1, "wsplit-at")
            elif how == 3:
                k = n - 1
            if k < n:
                w.probes["partial-write"] += 1
        return real.write(self._fd, mv[:k])

    def seek(self, pos, whence=0):
        return real.lseek(self._fd, pos, whence)

    def tell(self):
        return real.lseek(self._fd, 0, 1)

    def truncate(self, size=None):
        if size is None:
            size = self.tell()
        if self._live():
            self._w.op(self._a, "truncate", self._path, size)
        elif self._a.dead:
            return size
        real.ftruncate(self._fd, size)
        return size

    def close(self):
        if self.closed:
            return
        try:
            if self._live():
                self._w.op(self._a, "close", self._path)
        finally:
            fd, self._fd = self._fd, -1
            try:
                io.RawIOBase.close(self)
            finally:
                if fd >= 0:
                    try:
                        real.close(fd)
                    except OSError:
                        pass

    def __del__(self):
        # never perform simulated operations from the garbage collector
        fd = getattr(self, "_fd", -1)
        if fd is not None and fd >= 0:
            self._fd = -1
            try:
                real.close(fd)
            except OSError:
                pass


def _parse_mode(mode):
    m = set(mode)
    if not m <= set("rwaxbt+U") or len(mode) != len(m):
        raise ValueError("invalid mode: %r" % mode)
    binary = "b" in m
    plus = "+" in m
    if "r" in m or not (m & set("wax")):
        flags = os.O_RDWR if plus else os.O_RDONLY
        readable, writable, kind = True, plus, "r"
    elif "w" in m:
        flags = (os.O_RDWR if plus else os.O_WRONLY) | os.O_CREAT | os.O_TRUNC
        readable, writable, kind = plus, True, "w"
    elif "a" in m:
        flags = (os.O_RDWR if plus else os.O_WRONLY) | os.O_CREAT | os.O_APPEND
        readable, writable, kind = plus, True, "a"
    else:
        flags = (os.O_RDWR if plus else os.O_WRONLY) | os.O_CREAT | os.O_EXCL
        readable, writable, kind = plus, True, "x"
    return binary, flags | getattr(os, "O_CLOEXEC", 0), readable, writable, kind


def sim_open(file, mode="r", buffering=-1, encoding=None, errors=None,
             newline=None, closefd=True, opener=None):
    c = None
    if not isinstance(file, int) and opener is None:
        c = _ctx(file)
    if c is None:
        return real.open(file, mode, buffering, encoding, errors, newline,
                         closefd, opener)
    w, a, p = c
    binary, flags, readable, writable, kind = _parse_mode(mode)
    w.op(a, "open-" + kind, p)
    fd = real.os_open(p, flags, 0o666)
    raw = SimRaw(w, a, fd, p, mode, readable, writable)
    if buffering == 0:
        if not binary:
            raise ValueError("can't have unbuffered text I/O")
        return raw
    bufsize = w.cfg["bufsize"] if buffering in (-1, 1) else buffering
    if readable and writable:
        buf = io.BufferedRandom(raw, bufsize)
    elif writable:
        buf = io.BufferedWriter(raw, bufsize)
    else:
        buf = io.BufferedReader(raw, bufsize)
    if binary:
        return buf
    text = io.TextIOWrapper(buf, encoding, errors, newline, buffering == 1)
    text.mode = mode
    return text


# ---------------------------------------------------------------- os wrappers


def _simple(name, kind, npaths=1):
    """wrap os.<name>(path, ...) as one interposed op"""
    orig = getattr(os, name)

    def wrapper(path, *args, **kwargs):
        if kwargs.get("dir_fd") is not None or isinstance(path, int):
            return orig(path, *args, **kwargs)
        c = _ctx(path)
        if c is None and npaths == 2 and args:
            c = _ctx(args[0])
        if c is None:
            return orig(path, *args, **kwargs)
        w, a, p = c
        w.op(a, kind, p, w.rel(os.fspath(args[0])) if npaths == 2 and args else None)
        res = orig(path, *args, **kwargs)
        if kind == "stat" or kind == "lstat":
            return w.sim_times(p, res)  # file times are a clock: simulated
        return res

    wrapper.__name__ = name
    wrapper.__qualname__ = name
    wrapper.__wrapped__ = orig
    return wrapper


class _ScandirResult:
    def __init__(self, entries):
        self._it = iter(entries)

    def __iter__(self):
        return self

    def __next__(self):
        return next(self._it)

    def __enter__(self):
        return self

    def __exit__(self, *a):
        self.close()

    def close(self):
        self._it = iter(())


def sim_scandir(path="."):
    if isinstance(path, int):
        return real.scandir(path)
    c = _ctx(path)
    if c is None:
        return real.scandir(path)
    w, a, p = c
    w.op(a, "scandir", p)
    with real.scandir(path) as it:
        entries = {e.name: e for e in it}
    order = w.order_listing(list(entries))
    return _ScandirResult([entries[n] for n in order])


def sim_listdir(path="."):
    if isinstance(path, int):
        return real.listdir(path)
    c = _ctx(path)
    if c is None:
        return real.listdir(path)
    w, a, p = c
    w.op(a, "listdir", p)
    return w.order_listing(real.listdir(path))


def sim_sleep(seconds):
    w = _world
    if w is not None:
        a = w.by_thread.get(threading.get_ident())
        if a is not None:
            return w.sleep(a, seconds)
    return real.sleep(seconds)


def sim_getpid():
    w = _world
    if w is not None:
        a = w.by_thread.get(threading.get_ident())
        if a is not None:
            return a.vpid
    return real.getpid()


def _actor_random_bytes(n):
    """deterministic 'OS randomness' for an actor: a hash stream keyed by the
    actor's virtual pid and a per-actor counter (unique per actor and call)"""
    w = _world
    if w is None:
        return None
    a = w.by_thread.get(threading.get_ident())
    if a is None:
        return None
    out = b""
    while len(out) < n:
        a.uuid_ctr += 1
        out += hashlib.blake2b("{}:{}".format(a.vpid, a.uuid_ctr).encode(), digest_size=32).digest()
    return out[:n]


def sim_urandom(n):
    b = _actor_random_bytes(n)
    return real.urandom(n) if b is None else b


class _SimNameSequence:
    """tempfile's candidate-name generator, deterministic for actor threads"""

    characters = "abcdefghijklmnopqrstuvwxyz0123456789_"

    def __init__(self, real_seq):
        self._real = real_seq

    def __iter__(self):
        return self

    def __next__(self):
        b = _actor_random_bytes(8)
        if b is None:
            return next(self._real)
        return "".join(self.characters[x % len(self.characters)] for x in b)


def sim_uuid4():
    w = _world
    if w is not None:
        a = w.by_thread.get(threading.get_ident())
        if a is not None:
            a.uuid_ctr += 1
            return uuid.UUID(int=(a.vpid << 64) | a.uuid_ctr, version=4)
    return real.uuid4()


# ------------------------------------------------------- opaque HDF5 operations


def _install_xarray():
    import xarray as xr

    real.to_netcdf = xr.Dataset.to_netcdf
    real.open_dataset = xr.open_dataset

    def sim_to_netcdf(self, path=None, *args, **kwargs):
        c = _ctx(path) if isinstance(path, (str, os.PathLike)) else None
        if c is None:
            return real.to_netcdf(self, path, *args, **kwargs)
        w, a, p = c
        if w.scratch is None:
            raise HarnessError("world.scratch not set for opaque HDF5 save")
        w.op(a, "h5save", p)
        tmp = os.path.join(w.scratch, "h5-%d-%d.h5" % (a.vpid, a.nops))
        # real serialisation by h5netcdf/h5py into a private scratch file
        res = real.to_netcdf(self, tmp, *args, **kwargs)
        with real.open(tmp, "rb") as f:
            data = f.read()
        real.remove(tmp)
        # publication through the interposed layer: create/truncate, chunks, close
        n = len(data)
        k = max(1, w.cfg["h5_chunks"])
        step = max(1, (n + k - 1) // k)
        f = sim_open(p, "wb", buffering=0)
        try:
            pos = 0
            while pos < n:
                pos += f.write(data[pos:pos + step])
        finally:
            f.close()
        return res

    def sim_open_dataset(filename_or_obj, *args, **kwargs):
        c = None
        if isinstance(filename_or_obj, (str, os.PathLike)):
            c = _ctx(filename_or_obj)
        if c is not None:
            w, a, p = c
            w.op(a, "h5open", p)
        return real.open_dataset(filename_or_obj, *args, **kwargs)

    xr.Dataset.to_netcdf = sim_to_netcdf
    xr.open_dataset = sim_open_dataset
    # xarray.backends.api is where open_dataset lives; xyzpy calls xr.open_dataset
    import xarray.backends.api as xapi

    if getattr(xapi, "open_dataset", None) is real.open_dataset:
        xapi.open_dataset = sim_open_dataset


# ---------------------------------------------------------------------- install


def install():
    """Patch once per process.  Idempotent."""
    global _installed
    if _installed:
        return
    _installed = True
    real.open = builtins.open
    real.os_open = os.open
    real.read = os.read
    real.write = os.write
    real.close = os.close
    real.lseek = os.lseek
    real.ftruncate = os.ftruncate
    real.getcwd = os.getcwd
    real.scandir = os.scandir
    real.listdir = os.listdir
    real.remove = os.remove
    real.sleep = time.sleep
    real.getpid = os.getpid
    real.uuid4 = uuid.uuid4
    for nm in ("stat", "lstat", "access", "mkdir", "rmdir", "remove", "unlink",
               "rename", "replace"):
        setattr(real, nm, getattr(os, nm))

    builtins.open = sim_open
    io.open = sim_open
    os.stat = _simple("stat", "stat")
    os.lstat = _simple("lstat", "lstat")
    os.access = _simple("access", "access")
    os.mkdir = _simple("mkdir", "mkdir")
    os.rmdir = _simple("rmdir", "rmdir")
    os.remove = _simple("remove", "unlink")
    os.unlink = _simple("unlink", "unlink")
    os.rename = _simple("rename", "rename", npaths=2)
    os.replace = _simple("replace", "rename", npaths=2)
    os.scandir = sim_scandir
    os.listdir = sim_listdir
    os.getpid = sim_getpid
    time.sleep = sim_sleep
    uuid.uuid4 = sim_uuid4
    # other sources of "unique names": os.urandom (secrets, random.SystemRandom) and
    # tempfile's random candidate names - deterministic for actor threads only
    real.urandom = os.urandom
    os.urandom = sim_urandom
    random._urandom = sim_urandom
    tempfile._name_sequence = _SimNameSequence(tempfile._get_candidate_names())
    # force path-based rmtree so that "between two unlinks" is a crash point
    shutil._use_fd_functions = False
    _install_xarray()
    from . import simexec

    simexec.install_futures()
    try:
        import tqdm

        tqdm.tqdm.monitor_interval = 0
    except Exception:
        pass
