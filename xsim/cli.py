"""./check front end: batches, replay, evidence, known findings."""
import os
import sys
import json
import time
import hashlib
import subprocess
import collections

VERIF = os.path.dirname(os.path.dirname(os.path.abspath(__file__)))
EVID = os.environ.get("XSIM_EVIDENCE_DIR") or os.path.join(VERIF, "evidence")
REPLAYS = os.environ.get("XSIM_REPLAY_DIR") or os.path.join(VERIF, "replays")
KNOWN = os.path.join(VERIF, "known_findings.json")


def say(*a):
    print(*a, flush=True)


def load_known():
    try:
        with open(KNOWN) as f:
            return json.load(f)
    except FileNotFoundError:
        return {"findings": [], "fixed": []}


def real_vs_stub(prop):
    from . import registry

    return registry.REAL_VS_STUB.get(prop, registry.REAL_VS_STUB["default"])


def write_evidence(prop, tier, seed, level, results, wall, extra, nviol):
    os.makedirs(EVID, exist_ok=True)
    fired = collections.Counter()
    probes = collections.Counter()
    stats = collections.Counter()
    keys = set()
    states = set()
    digests = set()
    nops = 0
    sim_time = 0.0
    samples = []
    for r in results:
        fired.update(r["fired"])
        probes.update(r["probes"])
        stats.update(r["stats"])
        nops += r["nops"]
        sim_time += r["sim_time"]
        digests.add(r["digest"])
        states.update(r.get("distinct") or ())
        if r["nontrivial"]:
            keys.add(r["key"])
        if r.get("trace") and len(samples) < 3 and not r["violation"]:
            samples.append({"run_index": r["i"], "seed": r["seed"],
                            "trace": r["trace"][:40]})
    n = len(results)
    if not samples:
        samples = [{"run_index": r["i"], "seed": r["seed"],
                    "trace": (r.get("trace") or [])[:40]} for r in results[:1]]
    cov = {
        "evaluations": n,
        "distinct_nontrivial": len(keys),
        "rule": extra.pop("rule"),
        "samples": samples,
        "exhaustive": False,
        "distinct_event_log_digests": len(digests),
        "runs_per_hour": int(n / wall * 3600) if wall > 0 else 0,
        "seeds": {"root": seed, "derivation": "sha256(root|property|run_index)",
                  "run_indices": [results[0]["i"], results[-1]["i"]] if results else []},
        "simulated_seconds": round(sim_time, 3),
        "interposed_operations": nops,
        "faults_fired": dict(sorted(fired.items())),
        "probes": dict(sorted(probes.items())),
        "workload_stats": dict(sorted(stats.items())),
        "real_vs_stub": real_vs_stub(prop),
    }
    if states:
        cov["distinct_states"] = len(states)
    cells = [k for k in stats if k.startswith("cell:")]
    if cells:
        cov["cells_covered"] = len(cells)
        cov["runs_per_cell_min"] = min(stats[k] for k in cells)
        for k in list(cov["workload_stats"]):
            if k.startswith("cell"):
                del cov["workload_stats"][k]
    cov.update(extra)
    # sensitivity as last recorded by ./check --mutants and by the independently
    # seeded changes (not measured by this run; see mutants/RESULTS.json, seeded/)
    try:
        with open(os.path.join(VERIF, "mutants", "RESULTS.json")) as f:
            mres = json.load(f)
        mine = {k.split("/", 1)[1]: v["status"] for k, v in mres.items() if k.startswith(prop + "/")}
        if mine:
            cov["sensitivity_last_recorded"] = {
                "source": "./check --mutants (quick budget, scratch copies of /repo/xyzpy)",
                "detected": sorted(k for k, v in mine.items() if v == "detected"),
                "not_detected": sorted(k for k, v in mine.items() if v != "detected"),
            }
    except (OSError, ValueError):
        pass
    try:
        caught, quiet = [], []
        with open(os.path.join(VERIF, "seeded", "RESULTS.tsv")) as f:
            for line in f:
                sid, pr, ec, sig = (line.rstrip("\n").split("\t") + ["", "", "", ""])[:4]
                if pr == prop and ec == "1":
                    caught.append(sid)
        with open(os.path.join(VERIF, "seeded", "RESULTS_refactorings.tsv")) as f:
            for line in f:
                sid, pr, ec, sig = (line.rstrip("\n").split("\t") + ["", "", "", ""])[:4]
                if pr == prop and ec == "0":
                    quiet.append(sid)
        cov.setdefault("sensitivity_last_recorded", {})
        cov["sensitivity_last_recorded"]["independently_seeded_changes_caught_by_this_check"] = sorted(caught)
        cov["sensitivity_last_recorded"]["independent_refactorings_this_check_stayed_quiet_on"] = sorted(quiet)
    except (OSError, ValueError):
        pass
    if prop == "C04":
        try:
            with open(os.path.join(VERIF, "crossval_report.json")) as f:
                cov["actor_vs_process_crossval_last_recorded"] = json.load(f)
        except (OSError, ValueError):
            pass
    ev = {
        "property_id": prop, "tier": tier, "seed": int(seed), "level": level,
        "coverage": cov,
        "assumptions": [
            "crash model: a killed process loses userspace buffers only (no power loss); "
            "interposition is at Python I/O entry points, HDF5 writes are one opaque operation "
            "published as create/chunks/close",
            "simulated processes are actors in one interpreter that share no xyzpy objects "
            "unless the scenario says the user kept the object",
        ],
        "wall_s": round(wall, 2),
        "violations": nviol,
    }
    path = os.path.join(EVID, prop + ".json")
    tmp = path + ".tmp"
    with open(tmp, "w") as f:
        json.dump(ev, f, indent=1, sort_keys=True, default=str)
    os.replace(tmp, path)
    return path


def replay_file_path(prop, sig, tape):
    os.makedirs(os.path.join(REPLAYS, prop), exist_ok=True)
    h = hashlib.sha256((sig + repr(tape)).encode()).hexdigest()[:12]
    return os.path.join(REPLAYS, prop, "{}-{}.json".format(prop, h))


def run_check(prop, tier):
    from . import registry, runner, shrink

    if prop not in registry.PROPS:
        say("unknown or unclaimed property", prop)
        return 2
    spec = registry.PROPS[prop]
    wl_name, level = spec["workload"], spec["level"]
    params = dict(spec.get("params") or {})
    params["tier"] = tier
    nruns = int(os.environ.get("XSIM_RUNS") or spec[tier])
    seed = int(os.environ.get("VERIF_SEED") or 0)
    wall_cap = float(os.environ.get("XSIM_WALL") or spec.get(tier + "_wall", 3600))
    say("xsim: property={} tier={} root_seed={} runs={} workload={}".format(
        prop, tier, seed, nruns, wl_name))
    t0 = time.time()
    results, wall, timed_out = runner.run_batch(
        prop, wl_name, nruns, seed, params=params, wall_cap=wall_cap,
        start_index=int(os.environ.get("XSIM_START") or 0))
    if wl_name == "c16":
        from .workloads.cluster import _sweep_dead_semaphores

        _sweep_dead_semaphores()
    herr = [r for r in results if r["harness_error"]]
    if herr:
        say("HARNESS-ERROR in run {} (seed {}):\n{}".format(
            herr[0]["i"], herr[0]["seed"], herr[0]["harness_error"]))
        say("xsim: {} harness errors - nothing reported is to be believed".format(len(herr)))
        return 2
    if timed_out or not results:
        say("HARNESS-ERROR: batch exceeded wall cap {}s ({} of {} runs done)".format(
            wall_cap, len(results), nruns))
        return 2
    viol = [r for r in results if r["violation"]]
    by_sig = collections.OrderedDict()
    for r in viol:
        by_sig.setdefault(r["violation"]["sig"], []).append(r)
    known = load_known()
    known_sigs = {(k["property"], k["signature"]): k for k in known.get("findings", [])}
    workload = registry.WORKLOADS[wl_name]
    new_violations = 0
    replay_paths = []
    for sig, rs in list(by_sig.items())[:8]:
        r0 = rs[0]

        rparams = dict(params)
        rparams["run_index"] = r0["i"]

        def run(tp, rparams=rparams):
            return runner.execute(prop, workload, replay=tp, params=rparams)

        # workload-suggested reduction of the parameters (e.g. only the crash
        # site that failed instead of enumerating all of them)
        red = (r0["violation"].get("details") or {}).get("reduce")
        if red:
            trial = dict(rparams)
            trial.update(red)
            o = runner.execute(prop, workload, replay=r0["tape"], params=trial)
            if o["violation"] is not None and o["violation"]["sig"] == sig:
                rparams.update(red)
        best, final, nex = shrink.shrink(
            run, r0["tape"], sig,
            max_execs=int(os.environ.get("XSIM_SHRINK_EXECS", spec.get("shrink_execs", 500))),
            max_wall=float(os.environ.get("XSIM_SHRINK_WALL", spec.get("shrink_wall", 90))))
        rp = {
            "property": prop, "tier": tier, "root_seed": seed,
            "run_index": r0["i"], "derived_seed": r0["seed"],
            "workload": wl_name, "params": rparams,
            "tape": final["tape"], "original_tape_len": len(r0["tape"]),
            "shrink_executions": nex,
            "expected_violation": final["violation"],
            "event_log_digest": final["digest"],
            "trace": final.get("trace"),
            "event_tail": final.get("event_tail"),
            "occurrences_in_batch": len(rs),
        }
        path = replay_file_path(prop, sig, final["tape"])
        with open(path, "w") as f:
            json.dump(rp, f, indent=1, default=str)
        # the replay must reproduce in a fresh interpreter
        cp = subprocess.run([os.path.join(VERIF, "check"), "--replay", path],
                            capture_output=True, text=True, timeout=300)
        if "REPRODUCED" not in cp.stdout:
            # Something of this process (state left by earlier runs in a module of the
            # code under test or of a dependency) took part in the failure.  The ground
            # truth is "one tape, one fresh interpreter": derive the replay again with
            # every execution in its own interpreter; report only what that reproduces.
            say("note: {} did not reproduce in a fresh interpreter - re-deriving it with one "
                "fresh interpreter per execution".format(os.path.basename(path)))
            os.remove(path)
            got = None
            for prm in (rparams, dict(params, run_index=r0["i"])):
                o = fresh_execute(prop, wl_name, r0["tape"], prm)
                if o is not None and not o["harness_error"] and o["violation"] is not None:
                    got = (o, prm)
                    break
            if got is None:
                say("HARNESS-ERROR: violation {} of run {} does not occur when its tape is executed in a "
                    "fresh interpreter:\n{}\n{}".format(sig, r0["i"], cp.stdout[-2000:], cp.stderr[-2000:]))
                return 2
            o, prm = got
            sig = o["violation"]["sig"]
            best, final, nex = shrink.shrink(
                lambda tp, prm=prm: fresh_execute(prop, wl_name, tp, prm) or {
                    "harness_error": "no outcome", "violation": None},
                r0["tape"], sig, max_execs=int(os.environ.get("XSIM_FRESH_SHRINK_EXECS", 24)),
                max_wall=240)
            rp.update({"params": prm, "tape": final["tape"], "shrink_executions": nex,
                       "expected_violation": final["violation"], "event_log_digest": final["digest"],
                       "trace": final.get("trace"), "event_tail": final.get("event_tail"),
                       "derived_in_fresh_interpreters": True})
            path = replay_file_path(prop, sig, final["tape"])
            with open(path, "w") as f:
                json.dump(rp, f, indent=1, default=str)
            cp = subprocess.run([os.path.join(VERIF, "check"), "--replay", path],
                                capture_output=True, text=True, timeout=300)
            if "REPRODUCED" not in cp.stdout:
                say("HARNESS-ERROR: replay {} did not reproduce in a fresh interpreter:\n{}\n{}".format(
                    path, cp.stdout[-2000:], cp.stderr[-2000:]))
                return 2
        k = known_sigs.get((prop, sig))
        if k is not None:
            say("KNOWN-FINDING: property={} {} [{} occurrences, replay={}]".format(
                prop, k["what"], len(rs), path))
        else:
            new_violations += 1
            replay_paths.append(path)
            say("violation: {} :: {}".format(sig, final["violation"]["msg"][:500]))
            for line in (final.get("trace") or [])[:30]:
                say("    | " + line)
            say("VIOLATION property={} replay={}".format(prop, path))
    extra = dict(spec.get("evidence") or {})
    extra.setdefault("rule", "see DESIGN.md")
    extra["violating_runs"] = len(viol)
    extra["distinct_violation_signatures"] = list(by_sig)
    extra["planned_runs"] = nruns
    ev = write_evidence(prop, tier, seed, level, results, wall, extra, new_violations)
    say("xsim: {} runs in {:.1f}s ({:.0f}/h), {} violating runs, {} new signatures; evidence {}".format(
        len(results), wall, len(results) / max(wall, 1e-9) * 3600, len(viol),
        new_violations, ev))
    return 1 if new_violations else 0


def fresh_execute(prop, wl_name, tape, params):
    """Execute one tape in a fresh interpreter (./check --exec); -> outcome dict or None."""
    import tempfile

    fd, name = tempfile.mkstemp(prefix="xsim-exec-", suffix=".json",
                                dir=os.environ.get("XSIM_TMP", "/dev/shm"))
    try:
        with os.fdopen(fd, "w") as f:
            json.dump({"property": prop, "workload": wl_name, "tape": list(tape), "params": params}, f)
        cp = subprocess.run([os.path.join(VERIF, "check"), "--exec", name],
                            capture_output=True, text=True, timeout=600)
        for line in cp.stdout.splitlines():
            if line.startswith("XSIM-OUTCOME "):
                return json.loads(line[len("XSIM-OUTCOME "):])
        return None
    finally:
        try:
            os.remove(name)
        except OSError:
            pass


def run_exec(path):
    from . import registry, runner

    with open(path) as f:
        rq = json.load(f)
    o = runner.execute(rq["property"], registry.WORKLOADS[rq["workload"]], replay=rq["tape"],
                       params=rq.get("params"))
    keep = {k: o.get(k) for k in ("violation", "harness_error", "digest", "tape", "marks", "trace",
                                  "event_tail")}
    print("XSIM-OUTCOME " + json.dumps(keep, default=str))
    return 0


def run_replay(path):
    from . import registry, runner

    with open(path) as f:
        rp = json.load(f)
    prop = rp["property"]
    workload = registry.WORKLOADS[rp["workload"]]
    o = runner.execute(prop, workload, replay=rp["tape"], params=rp.get("params"))
    if o["harness_error"]:
        say("HARNESS-ERROR during replay:\n" + o["harness_error"])
        return 2
    exp = rp.get("expected_violation") or {}
    if o["violation"] is None:
        say("replay: no violation (expected {})".format(exp.get("sig")))
        return 0
    for line in (o.get("trace") or [])[:40]:
        say("    | " + line)
    say("replay: {} :: {}".format(o["violation"]["sig"], o["violation"]["msg"][:800]))
    same_sig = o["violation"]["sig"] == exp.get("sig")
    same_dig = o["digest"] == rp.get("event_log_digest")
    if same_sig and same_dig:
        say("REPRODUCED sig={} digest={}".format(o["violation"]["sig"], o["digest"]))
    else:
        say("replay: DIFFERENT sig_match={} digest_match={} (recorded {} / {})".format(
            same_sig, same_dig, exp.get("sig"), rp.get("event_log_digest")))
    say("VIOLATION property={} replay={}".format(prop, path))
    return 1


def setup():
    os.makedirs(EVID, exist_ok=True)
    import xyzpy
    import cloudpickle, xarray, h5netcdf, pandas, joblib  # noqa

    repo = os.environ.get("XSIM_REPO") or "/repo"
    if not os.path.realpath(xyzpy.__file__).startswith(os.path.realpath(repo)):
        say("xyzpy imported from", xyzpy.__file__, "not from", repo)
        return 2
    say("xsim setup ok: xyzpy from", xyzpy.__file__)
    return 0


def main(argv):
    if not argv:
        say(__doc__)
        return 2
    if argv[0] == "--setup":
        return setup()
    if argv[0] == "--replay":
        return run_replay(argv[1])
    if argv[0] == "--exec":
        return run_exec(argv[1])
    if argv[0] == "--selftest":
        from . import selftest

        return selftest.main(argv[1:])
    if argv[0] == "--crossval":
        from . import crossval

        return crossval.main(argv[1:])
    if argv[0] == "--mutants":
        from . import mutants

        return mutants.main(argv[1:])
    prop = argv[0].upper()
    tier = (argv[1] if len(argv) > 1 else os.environ.get("VERIF_TIER") or "quick").lower()
    if os.environ.get("VERIF_TIER") in ("quick", "thorough") and len(argv) < 2:
        tier = os.environ["VERIF_TIER"]
    return run_check(prop, tier)


if __name__ == "__main__":
    sys.exit(main(sys.argv[1:]))
