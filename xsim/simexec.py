"""SimExecutor: the worker pool as the simulator sees it.

Submitted tasks are *pending*.  The tape decides when a pending task starts
(the swept function is really called at that moment) and when a started
("in flight") task's result becomes visible.  With ``fifo=True`` tasks start
in submission order, at most ``workers`` in flight, as concurrent.futures /
multiprocessing / loky pools do; completion order among in-flight tasks is
free.  With ``fifo=False`` any pending task may start next (a user-supplied
executor promises nothing).  Nothing runs on its own: progress happens only at
submit (eager steps) and while the caller blocks in result()/get().

boundary='process' round-trips fn+arguments at submit and the return value at
completion through cloudpickle, cutting aliasing exactly where a process pool
cuts it; boundary='thread' passes the caller's objects through untouched.
"""
import traceback
import concurrent.futures
import multiprocessing.pool

import cloudpickle

from .world import HarnessError

_bound = {"tape": None, "stats": None, "log": None, "default": None}


def bind(tape, stats=None, log=None, default=None):
    """Make ``tape`` the decision source of executors created from now on
    (including those requested through get_reusable_executor)."""
    _bound["tape"] = tape
    _bound["stats"] = stats
    _bound["log"] = log
    _bound["default"] = default or {}


def unbind():
    bind(None)


class _Task:
    __slots__ = ("n", "fn", "args", "kwargs", "state", "value", "exc", "future", "pickled")

    def __init__(self, n, fn, args, kwargs):
        self.n = n
        self.future = None
        self.fn = fn
        self.args = args
        self.kwargs = kwargs
        self.state = "pending"  # pending -> inflight -> done
        self.value = None
        self.exc = None
        self.pickled = False


class _Core:
    def __init__(self, workers, fifo, boundary, tape, eager_den=3):
        if tape is None:
            raise HarnessError("SimExecutor created without a bound tape")
        self.workers = max(1, int(workers or 1))
        self.fifo = fifo
        self.boundary = boundary
        self.tape = tape
        self.tasks = []
        self.start_order = []
        self.done_order = []
        self.eager_den = eager_den
        self.stats = _bound["stats"]
        self.log = _bound["log"]

    # ---------------------------------------------------------- transitions
    def submit(self, fn, args, kwargs):
        # boundary == 'process': a real pool keeps the caller's objects by reference
        # in its pending queue and pickles them when the task is handed to a worker
        # (feeder / task-handler thread), i.e. some time after submit - here: when
        # the task starts, or already at submit (tape's choice).  Mutating an
        # argument after submitting it is therefore visible to late-starting tasks,
        # exactly as with multiprocessing.Pool / ProcessPoolExecutor.
        if self.boundary == "process" and self.tape.flag(1, 3, "ex-pickle-at-submit"):
            fn, args, kwargs = cloudpickle.loads(cloudpickle.dumps((fn, args, kwargs)))
            early = True
        else:
            early = False
        t = _Task(len(self.tasks), fn, args, kwargs)
        t.pickled = early
        self.tasks.append(t)
        # eager progress at submit time: a few steps, chosen by the tape
        steps = self.tape.choose(self.eager_den, "ex-eager")
        for _ in range(steps):
            if not self._step():
                break
        return t

    def _options(self):
        opts = []
        inflight = [t for t in self.tasks if t.state == "inflight"]
        pending = [t for t in self.tasks if t.state == "pending"]
        if pending and len(inflight) < self.workers:
            if self.fifo:
                opts.append(("start", pending[0]))
            else:
                opts.extend(("start", t) for t in pending)
        opts.extend(("finish", t) for t in inflight)
        return opts

    def _step(self):
        opts = self._options()
        if not opts:
            return False
        what, t = opts[self.tape.choose(len(opts), "ex-step")]
        if what == "start":
            self._start(t)
        else:
            self._finish(t)
        return True

    def _start(self, t):
        t.state = "inflight"
        self.start_order.append(t.n)
        try:
            if self.boundary == "process" and not t.pickled:
                t.fn, t.args, t.kwargs = cloudpickle.loads(
                    cloudpickle.dumps((t.fn, t.args, t.kwargs)))
                t.pickled = True
            t.value = t.fn(*t.args, **t.kwargs)
        except Exception as e:  # delivered at result()
            traceback.clear_frames(e.__traceback__)  # see World._ActorCtx.__exit__
            t.exc = e

    def _finish(self, t):
        if self.boundary == "process" and t.exc is None:
            t.value = cloudpickle.loads(cloudpickle.dumps(t.value))
        t.state = "done"
        self.done_order.append(t.n)
        if t.future is not None:
            t.future._publish()

    def wait(self, t):
        guard = 0
        while t.state != "done":
            if not self._step():
                raise HarnessError("SimExecutor stuck")
            guard += 1
            if guard > 100000:
                raise HarnessError("SimExecutor livelock")
        if self.stats is not None:
            self.stats["ex-waits"] += 1
        if t.exc is not None:
            raise t.exc
        return t.value

    def signature(self):
        """(inversions of completion order vs submission order, lazy starts)"""
        inv = 0
        d = self.done_order
        for i in range(len(d)):
            for j in range(i + 1, len(d)):
                if d[i] > d[j]:
                    inv += 1
        return inv


class SimFuture(concurrent.futures.Future):
    """A real concurrent.futures.Future whose completion the simulator decides.
    result()/exception() drive the pool instead of blocking;
    concurrent.futures.as_completed / wait are interposed (see install) so that
    code using them on these futures sees tape-chosen completion orders."""

    def __init__(self, core, task):
        concurrent.futures.Future.__init__(self)
        self._core = core
        self._task = task
        task.future = self
        if task.state == "done":
            self._publish()

    def _publish(self):
        if concurrent.futures.Future.done(self):
            return
        if self._task.exc is not None:
            self.set_exception(self._task.exc)
        else:
            self.set_result(self._task.value)

    def result(self, timeout=None):
        return self._core.wait(self._task)

    def done(self):
        return self._task.state == "done"

    def running(self):
        return self._task.state == "inflight"

    def cancel(self):
        return False

    def exception(self, timeout=None):
        try:
            self._core.wait(self._task)
        except Exception as e:
            return e
        return None


def sim_as_completed(fs, timeout=None):
    fs = list(fs)
    if not fs or not all(isinstance(f, SimFuture) for f in fs):
        return _real_as_completed(fs, timeout)

    def gen():
        pending = list(dict.fromkeys(fs))
        seen = set()
        while pending:
            ready = [f for f in pending if f.done()]
            if not ready:
                # nothing finished yet: let the simulated pool make one step
                cores = list(dict.fromkeys(f._core for f in pending))
                if not any(c._step() for c in cores):
                    raise HarnessError("as_completed: simulated pool stuck")
                continue
            # several may have finished "meanwhile": report in completion order
            order = {n: i for c in dict.fromkeys(f._core for f in ready)
                     for i, n in enumerate(c.done_order)}
            ready.sort(key=lambda f: order.get(f._task.n, 0))
            f = ready[0]
            pending.remove(f)
            yield f

    return gen()


def sim_wait(fs, timeout=None, return_when=concurrent.futures.ALL_COMPLETED):
    fs = list(fs)
    if not fs or not all(isinstance(f, SimFuture) for f in fs):
        return _real_wait(fs, timeout, return_when)
    DoneAndNotDone = concurrent.futures._base.DoneAndNotDoneFutures
    while True:
        done = {f for f in fs if f.done()}
        if return_when == concurrent.futures.FIRST_COMPLETED and done:
            break
        if return_when == concurrent.futures.FIRST_EXCEPTION and any(
                f._task.exc is not None for f in done):
            break
        if len(done) == len(fs):
            break
        cores = list(dict.fromkeys(f._core for f in fs if not f.done()))
        if not any(c._step() for c in cores):
            raise HarnessError("wait: simulated pool stuck")
    return DoneAndNotDone(done, set(fs) - done)


_real_as_completed = concurrent.futures.as_completed
_real_wait = concurrent.futures.wait


class SimAsyncResult:
    """multiprocessing / ipyparallel-like: only get()"""

    def __init__(self, core, task):
        self._core = core
        self._task = task

    def get(self, timeout=None):
        return self._core.wait(self._task)

    def ready(self):
        return self._task.state == "done"


class SimExecutor:
    flavour = "submit"

    def __init__(self, workers=2, fifo=True, boundary="thread", tape=None):
        self.core = _Core(workers, fifo, boundary, tape or _bound["tape"])
        self._max_workers = self.core.workers  # as concurrent.futures executors have

    def submit(self, fn, *args, **kwargs):
        return SimFuture(self.core, self.core.submit(fn, args, kwargs))

    def shutdown(self, wait=True, **kw):
        pass


class SimApplyAsync:
    """ipyparallel-view-like: apply_async(fn, *args, **kwargs) -> .get()"""

    flavour = "apply_async"

    def __init__(self, workers=2, fifo=True, boundary="thread", tape=None):
        self.core = _Core(workers, fifo, boundary, tape or _bound["tape"])

    def apply_async(self, fn, *args, **kwargs):
        return SimAsyncResult(self.core, self.core.submit(fn, args, kwargs))


class SimMPPool(multiprocessing.pool.Pool):
    """isinstance(multiprocessing.pool.Pool) without starting any process:
    apply_async(fn, args, kwds) -> .get()"""

    flavour = "mpPool"

    def __init__(self, workers=2, fifo=True, boundary="process", tape=None):
        # deliberately no super().__init__(): nothing is started
        self._state = "CLOSE"
        self.core = _Core(workers, fifo, boundary, tape or _bound["tape"])
        self._processes = self.core.workers  # as multiprocessing.pool.Pool has

    def apply_async(self, func, args=(), kwds=None, callback=None, error_callback=None):
        return SimAsyncResult(self.core, self.core.submit(func, tuple(args), dict(kwds or {})))

    def __del__(self):
        pass

    def __reduce__(self):
        raise NotImplementedError

    def close(self):
        pass

    def terminate(self):
        pass

    def join(self):
        pass


REQUESTS = []  # worker counts asked of get_reusable_executor (for oracles)


def sim_get_reusable_executor(max_workers=None, *args, **kwargs):
    """Stand-in for joblib.externals.loky.get_reusable_executor."""
    if _bound["tape"] is None:
        raise HarnessError("get_reusable_executor called outside a bound run")
    REQUESTS.append(max_workers)
    d = _bound["default"]
    workers = max_workers if max_workers else d.get("auto_workers", 3)
    ex = SimExecutor(workers=workers, fifo=True,
                     boundary=d.get("boundary", "process"))
    if _bound["log"] is not None:
        _bound["log"].append(ex)
    return ex


def install_futures():
    """Interpose concurrent.futures.as_completed / wait (before xyzpy is
    imported, so that ``from concurrent.futures import as_completed`` binds the
    simulated versions)."""
    concurrent.futures.as_completed = sim_as_completed
    concurrent.futures.wait = sim_wait
    concurrent.futures._base.as_completed = sim_as_completed
    concurrent.futures._base.wait = sim_wait


def install():
    """Rebind get_reusable_executor in the two xyzpy modules that import it."""
    install_futures()
    import xyzpy.gen.combo_runner as cr
    import xyzpy.gen.cropping as cp

    if not hasattr(install, "real"):
        install.real = cr.get_reusable_executor
    cr.get_reusable_executor = sim_get_reusable_executor
    cp.get_reusable_executor = sim_get_reusable_executor
