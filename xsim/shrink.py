"""Generic tape minimisation.

A run is a pure function of its tape.  Because every generator treats 0 as the
simplest alternative and an exhausted tape yields 0, deleting or zeroing parts
of the tape drops operations, faults and context switches.  A candidate is
kept iff the run still fails with the *same violation signature*.
"""
import time


def shrink(run, tape, sig, max_execs=600, max_wall=120.0, log=None):
    """run(tape_list) -> outcome dict (xsim.runner.execute).  Returns
    (best_tape, best_outcome, executions)."""
    t0 = time.time()
    execs = [0]
    best = list(tape)
    best_out = [None]

    def ok(cand):
        if execs[0] >= max_execs or time.time() - t0 > max_wall:
            return False
        execs[0] += 1
        o = run(cand)
        if o["harness_error"] is None and o["violation"] is not None \
                and o["violation"]["sig"] == sig:
            # canonical form: what the run actually consumed
            best_out[0] = o
            return True
        return False

    def canonical():
        o = best_out[0]
        if o is not None and len(o["tape"]) <= len(best):
            return list(o["tape"])
        return best

    # strip trailing zeros / unused tail first
    if ok(best):
        best = canonical()
    improved = True
    while improved and execs[0] < max_execs and time.time() - t0 < max_wall:
        improved = False
        # 0. delete whole generated operations (spans between the marks of the
        #    last accepted run), last first
        o = best_out[0]
        marks = sorted(set((o or {}).get("marks") or []))
        if marks:
            spans = [(a, b) for a, b in zip(marks, marks[1:] + [len(best)]) if a < b <= len(best)]
            for a, b in reversed(spans):
                if b > len(best):
                    continue
                cand = best[:a] + best[b:]
                if ok(cand):
                    best = canonical() if len(canonical()) <= len(cand) else cand
                    improved = True
        # 1. truncate (binary search on the length)
        lo, hi = 0, len(best)
        while lo < hi:
            mid = (lo + hi) // 2
            if ok(best[:mid]):
                best = canonical() if len(canonical()) <= mid else best[:mid]
                hi = min(mid, len(best))
                improved = True
            else:
                lo = mid + 1
        # 2. delete blocks
        for size in (32, 16, 8, 4, 2, 1):
            i = len(best) - size
            while i >= 0:
                cand = best[:i] + best[i + size:]
                if len(cand) < len(best) and ok(cand):
                    best = cand
                    improved = True
                i -= size if size > 1 else 1
        # 3. zero blocks, then lower single values
        for size in (8, 2, 1):
            i = 0
            while i < len(best):
                if any(best[i:i + size]):
                    cand = best[:i] + [0] * len(best[i:i + size]) + best[i + size:]
                    if ok(cand):
                        best = cand
                        improved = True
                i += size
        for i in range(len(best)):
            v = best[i]
            for nv in (v // 2, v - 1):
                if 0 < nv < v:
                    cand = best[:i] + [nv] + best[i + 1:]
                    if ok(cand):
                        best = cand
                        improved = True
                        break
        while best and best[-1] == 0:
            best = best[:-1]
    final = run(best)
    if final["violation"] is None or final["violation"]["sig"] != sig:
        # should not happen (determinism); fall back to the original
        final = run(list(tape))
        best = list(tape)
    if log:
        log("shrunk tape {} -> {} in {} executions".format(len(tape), len(best), execs[0]))
    return best, final, execs[0]
