"""Actor == process cross-validation (./check --crossval [N]).

The simulated checks run every step of a crop history as an *actor*: a fresh
Crop object in the same interpreter that knows only (name, parent_dir).  This
tool replays generated C04 histories with **real fresh interpreters** - one
`python -c` child per step (sow, each grow, reap) on a real directory - and
demands the same final result as the harness reference.  It validates the
"actors are processes" assumption of the trusted base; it is not a check of a
property (no schedule or fault is explored here) and never reports VIOLATION:
a disagreement is a defect of the *harness model* and exits 2.
"""
import os
import sys
import json
import time
import pickle
import shutil
import tempfile
import subprocess

VERIF = os.path.dirname(os.path.dirname(os.path.abspath(__file__)))

CHILD = r'''
import sys, os, json, pickle
sys.path.insert(0, {verif!r})
import xyzpy
from xyzpy.gen.cropping import grow as xgrow
step = json.load(open({stepfile!r}))
root, name = step["root"], step["name"]
if step["op"] == "sow":
    ns = {{"__name__": "__xsim_dynamic__"}}
    exec(compile(step["fn_src"], "<xsim-fn>", "exec"), ns)
    fn = ns["xfn"]
    fn.__module__ = "__xsim_dynamic__"
    crop = xyzpy.Crop(fn=fn, name=name, parent_dir=root, **step["ctor"])
    kw = dict(step["kw"])
    if step["api"] == "sow_combos":
        crop.sow_combos(step["combos"] or None, cases=step["cases"], constants=step["constants"],
                        verbosity=0, **kw)
    else:
        crop.sow_cases(tuple(step["fn_args"]), step["cases"], combos=step["combos"] or None,
                       constants=step["constants"], verbosity=0, **kw)
elif step["op"] == "grow_fn":
    xgrow(step["ids"][0], xyzpy.Crop(name=name, parent_dir=root), verbosity=0)
elif step["op"] == "crop_grow":
    xyzpy.Crop(name=name, parent_dir=root).grow(tuple(step["ids"]))
elif step["op"] == "grow_missing":
    xyzpy.Crop(name=name, parent_dir=root).grow_missing()
elif step["op"] == "reap":
    res = xyzpy.Crop(name=name, parent_dir=root).reap()
    with open(step["out"], "wb") as f:
        pickle.dump(res, f)
print("STEP-OK")
'''


def gen_history(seed):
    """Draw a C04 scenario and grow history with the same generators the check
    uses (no SimExecutor: real processes grow sequentially)."""
    from .tape import Tape
    from .workloads import cropgen as G
    from . import calllog

    t = Tape(seed=seed)
    sweep = G.gen_sweep(t, max_n=24)
    N = sweep.n()
    batching = G.gen_batching(t, N)
    shuffle = G.gen_shuffle(t)
    if sweep.cases is None:
        api = "sow_combos"
    else:
        api = t.pick(["sow_cases", "sow_combos"], "api")
    if api == "sow_cases":
        shuffle["site"] = "ctor"
    argnames = sweep.case_args + [a for a, _ in sweep.combos] + list(sweep.constants)
    fn = calllog.make_fn(sweep.kind, argnames)
    ctor, kw = {}, {}
    if batching["how"] != "none":
        (ctor if batching["site"] == "ctor" else kw)[batching["how"]] = batching["value"]
    if shuffle["site"] == "ctor":
        ctor["shuffle"] = shuffle["value"]
    elif api == "sow_combos":
        kw["shuffle"] = shuffle["value"]
    B = G.expected_num_batches(N, batching)
    steps = [{
        "op": "sow", "api": api, "fn_src": fn._xsim_src, "ctor": ctor, "kw": kw,
        "combos": [[a, list(v)] for a, v in sweep.combos],
        "cases": [dict(c) for c in sweep.cases] if sweep.cases else None,
        "fn_args": list(sweep.case_args), "constants": dict(sweep.constants) or None,
    }]
    grown = set()
    allb = list(range(1, B + 1))
    for _ in range(t.int_between(0, 5, "nops")):
        how = t.pick(["grow_fn", "crop_grow", "grow_missing"], "how")
        if how == "grow_fn":
            ids = [t.pick(allb, "id")]
        elif how == "crop_grow":
            ids = t.perm(allb, "ids")[: t.int_between(1, min(B, 3), "n")]
        else:
            ids = [b for b in allb if b not in grown]
            if not ids:
                continue
        steps.append({"op": how, "ids": ids})
        grown |= set(ids)
    if len(grown) < B:
        steps.append({"op": "grow_missing", "ids": []})
    steps.append({"op": "reap"})
    return sweep, api, steps


def run_one(seed, tmp):
    from .model import compare_nested

    sweep, api, steps = gen_history(seed)
    root = tempfile.mkdtemp(prefix="xval-", dir=tmp)
    out = os.path.join(root, "reaped.pkl")
    env = dict(os.environ)
    env["TQDM_DISABLE"] = "1"
    n = 0
    try:
        for st in steps:
            st = dict(st, root=root, name="xv", out=out)
            sf = os.path.join(root, "step.json")
            with open(sf, "w") as f:
                json.dump(st, f)
            cp = subprocess.run([sys.executable, "-c", CHILD.format(verif=VERIF, stepfile=sf)],
                                env=env, capture_output=True, text=True, timeout=300, cwd=root)
            n += 1
            if "STEP-OK" not in cp.stdout:
                return {"ok": False, "steps": n, "why": "step {} failed: {}".format(
                    st["op"], (cp.stderr or cp.stdout)[-400:])}
        with open(out, "rb") as f:
            res = pickle.load(f)
        bad = compare_nested(res, sweep, api == "sow_combos")
        if bad is not None:
            return {"ok": False, "steps": n, "why": "real-process reap differs: {}".format(bad)}
        return {"ok": True, "steps": n}
    finally:
        shutil.rmtree(root, ignore_errors=True)


def main(argv):
    import concurrent.futures
    from .tape import derive_seed

    n = int(argv[0]) if argv else 64
    tmp = os.environ.get("XSIM_TMP", "/dev/shm")
    t0 = time.time()
    seeds = [derive_seed(0, "crossval", i) for i in range(n)]
    bad = []
    steps = 0
    with concurrent.futures.ThreadPoolExecutor(int(os.environ.get("XSIM_WORKERS", 16))) as ex:
        for i, r in enumerate(ex.map(lambda s: run_one(s, tmp), seeds)):
            steps += r["steps"]
            if not r["ok"]:
                bad.append((i, r["why"]))
    rep = {"histories": n, "child_processes": steps, "disagreements": len(bad),
           "wall_s": round(time.time() - t0, 1),
           "what": "generated C04 histories executed with one fresh python interpreter per step "
                   "(sow / grow / Crop.grow / grow_missing / reap) and compared with the harness reference"}
    with open(os.path.join(VERIF, "crossval_report.json"), "w") as f:
        json.dump(rep, f, indent=1)
    print("crossval: {} histories, {} child processes, {} disagreements ({:.0f}s)".format(
        n, steps, len(bad), time.time() - t0))
    for i, why in bad[:5]:
        print("   history {}: {}".format(i, why))
    return 2 if bad else 0


if __name__ == "__main__":
    sys.exit(main(sys.argv[1:]))
