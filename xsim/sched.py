"""Baton-passing scheduler: every actor is a real thread, exactly one holds the
baton, and the tape decides at every interposed operation who runs next.  The
OS never chooses, so a run replays exactly.

Actors park *before* performing their operation, so the pending operation
(kind, path) of every parked actor is known - the conflict-directed policy
uses that to steer a reader into the window a writer has just opened.
"""
import os
import threading
import traceback

from .world import SimCrash, SimAbort, HarnessError


class Scheduler:
    def __init__(self, world, policy="uniform", stay=2, pct_depth=2, pct_horizon=400):
        self.w = world
        self.tape = world.tape
        self.policy = policy
        self.stay = stay  # uniform: weight of "keep running the current actor"
        self.actors = []
        self.main_done = threading.Event()
        self.switches = 0
        self.steps = 0
        self.trace = []  # compact schedule: actor index per switch
        self.hot = None  # (path, writer) most recently opened for writing
        self.pct_points = []
        self.pct_depth = pct_depth
        self.pct_horizon = pct_horizon
        self.low = 0
        world.sched = self

    # ------------------------------------------------------------- set-up
    def spawn(self, name, fn):
        a = self.w.new_actor(name)
        a.go = threading.Semaphore(0)
        a.fn = fn
        a.index = len(self.actors)
        self.actors.append(a)
        t = threading.Thread(target=self._body, args=(a,), name="xsim-" + name, daemon=True)
        a.thread = t
        return a

    def _body(self, a):
        a.go.acquire()
        a.ident = threading.get_ident()
        self.w.by_thread[a.ident] = a
        a.started = True
        try:
            if self.w.aborting:
                raise SimAbort()
            self.w.event(a, "actor-start", "", None)
            a.result = a.fn()
            self.w.event(a, "actor-end", "", None)
        except SimCrash as e:
            traceback.clear_frames(e.__traceback__)
            self.w.event(a, "actor-killed", "", None)
        except SimAbort as e:
            traceback.clear_frames(e.__traceback__)
        except BaseException as e:  # delivered to the workload
            traceback.clear_frames(e.__traceback__)  # see World._ActorCtx.__exit__
            a.exc = e
            self.w.event(a, "actor-raised", "", type(e).__name__)
        finally:
            self.w.by_thread.pop(a.ident, None)
            a.finished = True
            a.finished_step = self.w.steps
            a.finished_clock = self.w.clock
            self._handoff(None)

    def run(self, hang_timeout=None):
        hang_timeout = hang_timeout or float(os.environ.get("XSIM_HANG", "45"))
        if self.policy == "pct":
            order = self.tape.perm(list(range(len(self.actors))), "pct-prio")
            for rank, idx in enumerate(order):
                self.actors[idx].prio = len(order) - rank
            self.pct_points = sorted(
                self.tape.choose(self.pct_horizon, "pct-point") for _ in range(self.pct_depth))
        for a in self.actors:
            a.thread.start()
        self._handoff(None)
        if not self.main_done.wait(hang_timeout):
            self.w.abort("hang")
            self.main_done.wait(5)
            raise HarnessError("scheduler hang: actors {}".format(
                [(a.name, a.finished, a.pending) for a in self.actors]))
        for a in self.actors:
            a.thread.join(5)
        self.w.sched = None

    # --------------------------------------------------------- scheduling
    def _runnable(self):
        return [a for a in self.actors if not a.finished
                and (a.wake_at is None or a.wake_at <= self.w.clock + 1e-12)]

    def _advance_clock(self):
        sleepers = [a for a in self.actors if not a.finished and a.wake_at is not None]
        if not sleepers:
            return False
        t = min(a.wake_at for a in sleepers)
        if t > self.w.clock:
            self.w.clock = t
        return True

    def _choose(self, current, runnable):
        if len(runnable) == 1:
            return runnable[0]
        t = self.tape
        if self.policy == "pct":
            return max(runnable, key=lambda a: (a.prio, -a.index))
        others = [a for a in runnable if a is not current]
        if self.policy == "conflict" and self.hot is not None and current is not None:
            path, writer = self.hot
            if writer is current:
                d = os.path.dirname(path)
                near = [a for a in others if a.pending is not None
                        and a.pending[1] in (path, d)]
                if near and t.flag(1, 2, "conflict-preempt"):
                    self.w.probes["conflict-directed-preemption"] += 1
                    return near[t.choose(len(near), "conflict-who")]
        if current is not None and current in runnable:
            # index 0 (and the next stay-1) = keep running the current actor
            k = t.choose(len(others) + self.stay, "sched")
            if k < self.stay:
                return current
            return others[k - self.stay]
        return runnable[t.choose(len(runnable), "sched")]

    def _handoff(self, current):
        """Pick the next actor and release it (current is None when the caller
        is finished or is the main thread)."""
        runnable = self._runnable()
        if not runnable:
            if self._advance_clock():
                runnable = self._runnable()
        if not runnable:
            self.main_done.set()
            return None
        nxt = self._choose(current, runnable)
        if nxt is not current:
            self.switches += 1
            if len(self.trace) < 2000:
                self.trace.append(nxt.index)
            nxt.wake_at = None
            nxt.go.release()
        return nxt

    def yield_point(self, actor, kind, path):
        self.steps += 1
        actor.pending = (kind, path)
        if kind == "open-w" or kind == "open-a" or kind == "open-x":
            actor.writing = path
        elif kind == "write" and getattr(actor, "writing", None) == path:
            self.hot = (path, actor)
        elif kind == "close" and getattr(actor, "writing", None) == path:
            self.hot = (path, actor)
            actor.writing = None
        if self.policy == "pct" and self.pct_points and self.steps >= self.pct_points[0]:
            self.pct_points.pop(0)
            self.low -= 1
            actor.prio = self.low
        nxt = self._handoff(actor)
        if nxt is not actor:
            actor.go.acquire()
            if self.w.aborting:
                raise SimAbort()
        actor.pending = None

    def sleep(self, actor, seconds):
        self.steps += 1
        self.w.steps += 1
        if self.w.steps > self.w.cfg["max_steps"]:
            self.w.abort("step-cap")
            raise SimAbort()
        actor.wake_at = self.w.clock + max(0.0, float(seconds))
        actor.pending = ("sleep", None)
        nxt = self._handoff(actor)
        if nxt is not actor:
            actor.go.acquire()
            if self.w.aborting:
                raise SimAbort()
        actor.wake_at = None
        actor.pending = None

    # ------------------------------------------------------------ teardown
    def wake_all(self):
        for a in self.actors:
            if not a.finished:
                a.go.release()
        # if nobody is left to finish, let main go
        if all(a.finished for a in self.actors):
            self.main_done.set()

    def shutdown(self):
        self.w.aborting = True
        for a in self.actors:
            if not a.finished:
                a.go.release()
