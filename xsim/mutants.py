"""Sensitivity: apply each /verif/mutants/<PROP>/<name>.patch to a scratch copy
of /repo/xyzpy (never to /repo), point the engine at the copy and expect the
property's check to report a VIOLATION within the quick budget."""
import os
import sys
import json
import time
import shutil
import tempfile
import subprocess

VERIF = os.path.dirname(os.path.dirname(os.path.abspath(__file__)))
MUT = os.path.join(VERIF, "mutants")
TMP = os.environ.get("XSIM_TMP", "/dev/shm")


def run_one(prop, patch, runs=None, tier="quick"):
    work = tempfile.mkdtemp(prefix="xsim-mutant-", dir=TMP)
    try:
        shutil.copytree("/repo/xyzpy", os.path.join(work, "xyzpy"),
                        ignore=shutil.ignore_patterns("__pycache__"))
        with open(patch) as f:
            cp = subprocess.run(["patch", "-p1", "-s", "-d", work], stdin=f,
                                capture_output=True, text=True)
        if cp.returncode != 0:
            return {"status": "patch-failed", "detail": (cp.stdout + cp.stderr)[-300:]}
        env = dict(os.environ)
        env["XSIM_REPO"] = work
        env["XSIM_EVIDENCE_DIR"] = os.path.join(work, "evidence")
        env["XSIM_REPLAY_DIR"] = os.path.join(work, "replays")
        if runs:
            env["XSIM_RUNS"] = str(runs)
        env.setdefault("XSIM_SHRINK_EXECS", "30")
        t0 = time.time()
        cp = subprocess.run([os.path.join(VERIF, "check"), prop, tier], env=env,
                            capture_output=True, text=True, timeout=3600)
        wall = time.time() - t0
        out = cp.stdout
        sigs = [ln.split("::")[0].replace("violation:", "").strip()
                for ln in out.splitlines() if ln.startswith("violation:")]
        known = [ln for ln in out.splitlines() if ln.startswith("KNOWN-FINDING")]
        first_run = None
        try:
            ev = json.load(open(os.path.join(work, "evidence", prop + ".json")))
            first_run = ev["coverage"].get("violating_runs")
            total = ev["coverage"].get("evaluations")
        except Exception:
            total = None
        status = {0: "missed", 1: "detected"}.get(cp.returncode, "harness-error")
        if status == "harness-error":
            detail = (out + cp.stderr)[-600:]
        else:
            detail = ""
        return {"status": status, "exit": cp.returncode, "signatures": sigs[:6],
                "violating_runs": first_run, "runs": total, "wall_s": round(wall, 1),
                "detail": detail}
    finally:
        shutil.rmtree(work, ignore_errors=True)


def main(argv):
    props = [a.upper() for a in argv if not a.startswith("-") and "/" not in a]
    only_names = {a.split("/", 1)[1] for a in argv if "/" in a}
    props += [a.split("/", 1)[0].upper() for a in argv if "/" in a]
    res_path = os.path.join(MUT, "RESULTS.json")
    try:
        results = json.load(open(res_path))
    except Exception:
        results = {}
    todo = []
    for prop in sorted(os.listdir(MUT)):
        d = os.path.join(MUT, prop)
        if not os.path.isdir(d) or (props and prop not in props):
            continue
        for name in sorted(os.listdir(d)):
            if name.endswith(".patch"):
                todo.append((prop, name[:-6], os.path.join(d, name)))
    missed = 0
    nrun = 0
    for prop, name, patch in todo:
        if only_names and name not in only_names:
            continue
        r = run_one(prop, patch)
        with open(patch) as f:
            head = f.readline() + f.readline()
        r["note"] = head.replace("#", "").strip().replace("\n", " | ")
        control = name.startswith("control-")
        r["control"] = control
        if control:
            r["status"] = {"missed": "quiet (control)", "detected": "FALSE-ALARM on control"}.get(
                r["status"], r["status"])
        results["{}/{}".format(prop, name)] = r
        nrun += 1
        print("{:4s} {:45s} {:16s} {} of {} runs violate  {:6.1f}s  {}".format(
            prop, name, r["status"], r.get("violating_runs"), r.get("runs"),
            r.get("wall_s", 0), ";".join(r.get("signatures", [])[:2])[:90]), flush=True)
        if r["status"] not in ("detected", "quiet (control)"):
            missed += 1
            if r.get("detail"):
                print("      " + r["detail"][-400:].replace("\n", "\n      "))
        with open(res_path, "w") as f:
            json.dump(results, f, indent=1, sort_keys=True)
    print("mutants: {} run, {} not as expected".format(nrun, missed))
    return 0


if __name__ == "__main__":
    sys.exit(main(sys.argv[1:]))
