"""property id -> workload, budgets, evidence text"""


def _lazy(mod, name):
    def f(ctx):
        import importlib

        return getattr(importlib.import_module("xsim.workloads." + mod), name)(ctx)

    f.__name__ = name
    return f


WORKLOADS = {
    "c04": _lazy("crop", "run_c04"),
}

REAL_VS_STUB = {
    "default": {
        "real": ["all of xyzpy (imported from /repo's working tree)", "cloudpickle", "pickle",
                 "joblib", "xarray + h5netcdf/h5py serialisation", "pandas", "glob/shutil/os.path"],
        "stub": ["process boundary (actors in one interpreter, fresh objects per actor)",
                 "kernel boundary of the file system (interposed open/read/write/close/stat/"
                 "scandir/mkdir/unlink/rename on a real tmpfs directory)",
                 "loky / process pools (SimExecutor decides start and completion order)",
                 "clock (time.sleep is simulated)"],
    },
}

PROPS = {
    "C04": {
        "workload": "c04", "level": "exploration",
        "quick": 6000, "thorough": 120000,
        "evidence": {
            "rule": "each run draws a sweep (grid / case list / both, 1-40 settings, result kind), "
                    "batching (size/count, at constructor or sow), shuffle (value and site), sow API "
                    "and spelling, then a tape-chosen history of grow operations (grow(), Crop.grow "
                    "subsets/permutations, grow_missing, num_workers via SimExecutor, repeats, fresh "
                    "or reused Crop object) and a final reap compared position by position with the "
                    "harness's own reference. non-trivial = more than one batch and at least one "
                    "grow operation; distinct = distinct (N, batches, batching, shuffle, api, kind, "
                    "grow-op sequence).",
        },
    },
}
