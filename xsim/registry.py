"""property id -> workload, budgets, evidence text"""


def _lazy(mod, name):
    def f(ctx):
        import importlib

        return getattr(importlib.import_module("xsim.workloads." + mod), name)(ctx)

    f.__name__ = name
    return f


WORKLOADS = {
    "c04": _lazy("crop", "run_c04"),
    "c08": _lazy("crop", "run_c08"),
    "c09": _lazy("crop", "run_c09"),
    "c11": _lazy("race", "run_c11"),
    "c12": _lazy("reapfail", "run_c12"),
    "c10": _lazy("crash", "run_c10"),
    "c01": _lazy("sweep", "run_c01"),
    "c05": _lazy("harvest", "run_c05"),
    "c15": _lazy("sampler", "run_c15"),
    "c06": _lazy("twin", "run_c06"),
    "c16": _lazy("cluster", "run_c16"),
}

REAL_VS_STUB = {
    "default": {
        "real": ["all of xyzpy (imported from /repo's working tree)", "cloudpickle", "pickle",
                 "joblib", "xarray + h5netcdf/h5py serialisation", "pandas", "glob/shutil/os.path"],
        "stub": ["process boundary (actors in one interpreter, fresh objects per actor)",
                 "kernel boundary of the file system (interposed open/read/write/close/stat/"
                 "scandir/mkdir/unlink/rename on a real tmpfs directory)",
                 "loky / process pools (SimExecutor decides start and completion order)",
                 "clock (time.sleep is simulated; file times returned by os.stat are simulated event times, "
                 "with a seeded granularity in C05/C06/C08/C09/C12)",
                 "module-level state of xyzpy (functools caches cleared, global RNGs re-seeded at the start of each run)"],
    },
}

UNDER_CONSTRUCTION = "simulation target (see DESIGN.md section 3); check not built yet in this snapshot"

NOT_APPLICABLE = {
    
 
    
    
    "C02": "pure function of (cases, combos, fn): enumeration and placeholder shape contain no schedule, "
           "clock, I/O or fault; executor reordering is C01's subject. Not a simulation target.",
    "C03": "labelling a finished result list into a Dataset/DataFrame is a pure transformation; shuffle is a "
           "deterministic permutation of the input, not a schedule. Not a simulation target.",
    "C07": "arithmetic over (N, batchsize, num_batches), best decided by exhaustive enumeration (another "
           "technique); asserted as a sanity invariant inside crop runs but not claimed.",
    "C13": "is_case_missing / find_missing_cases are pure functions of a Dataset; no nondeterminism beyond C05's.",
    "C14": "single save->load round trip of one dataset: no concurrency, crash or history; input-quantified.",
    "C17": "matplotlib artists are a pure function of dataset and options.",
    "C18": "infiniplot artists are a pure function of dataset and options.",
    "C19": "Welford updates and the stopping rule are pure sequential arithmetic; chunkings are inputs, not schedules.",
    "C20": "pure string formatting.",
}

PROPS = {
    "C04": {
        "workload": "c04", "level": "exploration",
        "quick": 6000, "thorough": 120000,
        "technique": "deterministic simulation: seeded sow/grow/reap histories over a real crop directory with "
                     "interposed file I/O, simulated process boundaries and a simulated worker pool; reference-model oracle",
        "level_text": "Seeded exploration of generated sweeps x batching x shuffle x grow histories (order, grouping, "
                      "repetition, parallel completion order, fresh-process reloads, and phases in which 2-3 worker "
                      "processes grow distinct / overlapping / the same batches at once under the seeded scheduler); "
                      "every reaped position is compared with an independent reference and no worker may fail. "
                      "Evidence, not proof: the space is sampled.",
        "level_note": "Trusts: the harness reference (itertools.product + injective value function), actors == "
                      "processes (no shared xyzpy objects unless the scenario keeps the object), loky replaced by SimExecutor.",
        "evidence": {
            "rule": "each run draws a sweep (grid / case list / both, 1-40 settings; result kinds incl. numpy arrays, "
                    "numpy scalars, complex, None for some settings; values as list / tuple / numpy array / range; "
                    "dict cases with their own key order, cases as one-shot iterators; argument names incl. "
                    "'self', 'fn', 'crop'), "
                    "batching (size/count, at constructor or sow), shuffle (value and site), sow API "
                    "and spelling, then a tape-chosen history of grow operations (grow(), Crop.grow "
                    "subsets/permutations, grow_missing, num_workers via SimExecutor, repeats, fresh "
                    "or reused Crop object, 1 in 6 a concurrent phase of 2-3 growers) and a final reap compared position by position with the "
                    "harness's own reference. non-trivial = more than one batch and at least one "
                    "grow operation; distinct = distinct (N, batches, batching, shuffle, api, kind, "
                    "grow-op sequence).",
        },
    },
    "C08": {
        "workload": "c08", "level": "exploration",
        "quick": 5000, "thorough": 100000,
        "technique": "deterministic simulation: seeded operation histories (sow, re-sow, grows, failing function, "
                     "external deletion/corruption, check_bad, reload, "
                     "disk-full during a grow) against a finished-set reference model; progress queried after most "
                     "steps (1 in 3 are left unobserved) by a fresh simulated process and by the kept object",
        "level_text": "Seeded exploration of operation histories up to length 12 on crops of 1-8 batches; after every "
                      "operation all four progress queries and str(crop) are compared with a model that marks a batch "
                      "finished iff a grow ran all of its settings to a normal return; each grow's directory diff "
                      "must be exactly the completed batches' result files.",
        "level_note": "Trusts: the call log of the harness's swept function as ground truth for 'a grow of the batch "
                      "completed'; batch membership read from the sown batch files; external corruption is always "
                      "followed by check_bad.",
        "evidence": {
            "rule": "each run draws a sweep and batching (1-8 batches; crop names incl. glob metacharacters) and then up "
                    "to 12 operations from {grow one / "
                    "subset / missing (optionally num_workers; ids as int / tuple / list / one-shot iterator), poison (the "
                    "function raises FnError / StopIteration / KeyError / ValueError) or un-poison a setting, re-sow same arguments "
                    "(same or new object), delete a result, corrupt a result then check_bad, check_bad on a healthy "
                    "crop, reload}; progress is queried after an operation with probability 2/3 (so that several changes can lie between "
                    "two queries of the kept object) and always at the end. non-trivial = at least 2 batches and 2 "
                    "operations; distinct = distinct (batches, operation sequence with arguments).",
        },
    },
    "C09": {
        "workload": "c09", "level": "exploration",
        "quick": 5000, "thorough": 100000,
        "technique": "deterministic simulation: seeded sow / partial-grow / partial-reap / grow-more / full-reap "
                     "histories by fresh simulated processes, biased to the uneven-batch boundary; reference-model "
                     "oracle per position plus byte-level directory comparison",
        "level_text": "Seeded exploration over sweeps x batching (with and without remainder) x shuffle x result kind x "
                      "reap form (raw / Dataset / DataFrame) x finished subsets (biased so that the missing set "
                      "straddles the enlarged/normal batch boundary). Finished positions must be exact, all others "
                      "missing; the crop directory must be byte-identical after a default partial reap and after a "
                      "refused reap; the final full reap must equal the reference.",
        "level_note": "Trusts: batch membership read from the sown batch files; the harness reference. The subset "
                      "space is sampled, not enumerated (enumeration would be model checking).",
        "evidence": {
            "rule": "each run draws sweep, batching (<= 7 batches), shuffle, result kind; grows a non-empty proper "
                    "subset of batches (half of the runs force the last enlarged and/or first normal batch to be "
                    "missing), checks refusal without allow_incomplete, partial reap in a tape-chosen form (by a fresh "
                    "object, the sowing object, or one made before the sow; 1 in 6 with a transient EIO on a finished "
                    "result, after which the reap must have failed, not shown the batch as missing), "
                    "optionally grows more and reaps partially again, then grows the rest and reaps fully. "
                    "non-trivial = at least 2 batches; distinct = distinct (N, batch sizes, shuffle, kind, api, "
                    "grow/partial-reap sequence).",
        },
    },
    "C11": {
        "workload": "c11", "level": "exploration",
        "quick": 20000, "thorough": 600000,
        "technique": "deterministic simulation: real grow() x1-3, reap(wait=True) and a progress poller as "
                     "baton-passing threads; a seeded scheduler (uniform / PCT / conflict-directed) picks the next "
                     "actor at every interposed file operation; simulated clock for the 0.2 s poll",
        "level_text": "Seeded search over interleavings of the file operations (create, write chunks, close, rename, "
                      "stat, open, read, scandir) of 1-3 growers (distinct batches or the same batch twice), one "
                      "waiting reaper and an optional poller on crops of 1-3 batches, with varied userspace buffer "
                      "sizes and partial writes. The reaper must return the reference and never raise; every poll "
                      "answer is bracketed by the ground-truth completed set at its start and end; once all growers "
                      "are done the reaper finishes within one more poll interval. Sampled, not exhaustive.",
        "level_note": "Trusts: actors == processes; a batch is complete when a grow() of it has returned. Not done: "
                      "partial-order enumeration (model checking). Duplicate growers run with clean_up=False.",
        "evidence": {
            "rule": "each run sows 1-3 batches fault-free, then runs growers/reaper/poller concurrently under one of "
                    "three scheduling policies; non-trivial = at least 2 context switches; distinct = distinct hash of "
                    "the (actor, op-kind, file-class) sequence restricted to operations on results/.",
        },
    },
    "C12": {
        "workload": "c12", "level": "fault_enumeration",
        "quick": 2016, "thorough": 50400,
        "technique": "deterministic simulation with fault enumeration: every cell of clean_up x allow_incomplete x wait "
                     "x farmer kind x failure stage (252 applicable cells, taken in turn by run index) on seeded "
                     "scenarios, injected failure (missing batches, torn result, wrong output description, merge "
                     "conflict, ENOSPC on the data-file write, transient EIO on a result read), byte-level comparison "
                     "of the crop directory and the data file, corrected retry (by a new process or on the very object "
                     "whose reap failed)",
        "level_text": "The finite product of reap options, farmer kinds and failure stages is enumerated (run index "
                      "modulo 252; quick = 8 seeded scenarios per cell, thorough = 200); wait on an incomplete crop is "
                      "paired with a late grower under the seeded scheduler. A failing reap must leave the crop "
                      "byte-identical and a corrected retry must deliver the reference; a successful reap must follow the "
                      "documented clean-up rule and, for harvester/sampler crops, must not unlink anything under the "
                      "crop before the data file is published (from the event log).",
        "level_note": "Scenarios per cell are sampled. The save error is ENOSPC on the first kernel write into the "
                      "data file or its temporary sibling. Data names carry their extension here (C05 covers names).",
        "evidence": {
            "rule": "run i executes cell (i mod 252) of the option x farmer x failure-stage product on a scenario drawn "
                    "from its own seed (sweep, batching <= 4 batches, shuffle, result kind, storage engine, earlier data "
                    "on disk); non-trivial = every run (each injects its cell's failure or checks the clean-up rule); "
                    "distinct = distinct (cell, N, batches, kind, finished set).",
            "cells_total": 252,
        },
    },
    "C10": {
        "workload": "c10", "level": "fault_enumeration",
        "quick": 480, "thorough": 12000,
        "shrink_execs": 60, "shrink_wall": 150,
        "technique": "deterministic simulation with crash-site enumeration: the victim phase (sow, re-sow, grow, "
                     "Crop.grow, grow_missing, reap; raw / Runner / Harvester / Sampler crops) is run once to count "
                     "its interposed file operations and then re-run from a snapshot with a kill before every one of "
                     "them (partial kernel writes and small userspace buffers give torn prefixes); after each kill: "
                     "plain-reap probe, documented recovery by fresh simulated processes with an optional second "
                     "kill, comparison with the reference and with the data that was on disk before; one scenario in "
                     "four enumerates a full disk (ENOSPC at each kernel write) instead of kills, and there the "
                     "failed call may be repeated in the same session on the very object that failed",
        "level_text": "Within each seeded scenario every crash site of the victim phase is enumerated (all K <= 150 "
                      "operation boundaries, else 150 evenly spaced ones); scenarios, write splits, listing order, "
                      "and the second crash (step and site) are seeded. After each crash a plain reap must refuse or "
                      "be exact, the recovery must reach the reference, and harvester/sampler data saved earlier "
                      "must stay loadable and unchanged at the crash state and after recovery.",
        "level_note": "Crash model: process kill (userspace buffers lost, kernel state kept), no power loss. Recovery "
                      "procedure as read from the docs: re-sow iff the victim was a sower or the sown files / "
                      "directories are incomplete, then check_bad, grow_missing, reap; a harvester/sampler crop that "
                      "is entirely gone after a killed reap counts as delivered. HDF5 writes are one opaque "
                      "operation published as create/3 chunks/close.",
        "evidence": {
            "rule": "run i uses victim phase (i mod 6) on a scenario from its own seed (farmer kind, sweep of <= 10 "
                    "settings in <= 5 batches, result kind, storage engine, earlier data on disk, pre-grown batches, "
                    "buffer size, write splitting); evaluations counts scenarios, workload_stats.crashes counts "
                    "kill executions; non-trivial = every scenario (each enumerates >= 1 crash site); distinct = "
                    "distinct (victim, farmer, N, batches, kind, number of sites). distinct_states = distinct "
                    "crash states reached = hash of (victim, farmer, {file name: empty / < 64 bytes / larger}) "
                    "over the run's root directory right after a kill.",
        },
    },
    "C01": {
        "workload": "c01", "level": "exploration",
        "quick": 12000, "thorough": 400000,
        "technique": "deterministic simulation of the worker pool: combo_runner driven through SimExecutor "
                     "(submit / apply_async / multiprocessing.Pool flavours, thread or process boundary) whose start "
                     "and completion order the seeded tape decides; call-log and reference-model oracles",
        "level_text": "Seeded exploration over grids (1-5 arguments, 1-4 values - the whole quantified range, up to 1024 "
                      "settings - int/float/str also mixed within one argument, floats one ulp apart, values as list / "
                      "tuple / numpy array / range, argument names incl. 'fn' and 'executor', three spellings, "
                      "optional case lists), constants, result kinds (scalar, tuples, list, 1-d / integer / 2-d numpy "
                      "arrays, numpy scalar, complex, str), split (tuple entries or array rows) / flat, and 2-4 execution "
                      "strategies per grid "
                      "(sequential, shuffle seeds, parallel=True/int, num_workers, every executor flavour) under "
                      "tape-chosen start/completion orders (FIFO window of 1-4 workers, or unordered). The call log "
                      "must be exactly the requested settings once each; every slot must hold its own value.",
        "level_note": "The pools themselves (loky, multiprocessing, concurrent.futures internals) are replaced by "
                      "SimExecutor; their scheduling is what the simulator decides. Completion orders are sampled.",
        "evidence": {
            "rule": "each run draws one grid and 2-4 strategies with their own completion schedules; non-trivial = "
                    "at least 2 settings; distinct = distinct (N, #axes, kind, per-strategy (kind, flavour, boundary, "
                    "completion inversions (capped), lazy start, shuffle, split, flat)).",
        },
    },
    "C05": {
        "workload": "c05", "level": "exploration",
        "quick": 2400, "thorough": 60000,
        "technique": "deterministic simulation: seeded harvest histories (harvest_combos / harvest_cases / add_ds / "
                     "save_merge_ds / drop_sel / expand_dims / new session) by simulated processes over one data "
                     "name, against a dict model (variable, coordinates) -> value with the three overwrite "
                     "policies; memory and a fresh process's load_ds are compared with the model after every step",
        "level_text": "Seeded exploration of histories of length 1-8 over overlapping and disjoint coordinate sets, "
                      "three overwrite policies per step, function versions that agree or conflict, sync on/off, "
                      "engines h5netcdf and joblib, data names with and without extension, a new Harvester at any "
                      "step; labels of one coordinate are ints, strings of different lengths, or ints and a float; "
                      "versions that differ by a relative 2^-41 (a real conflict no tolerance may swallow); dict "
                      "cases with their own key order; synced harvests that repeat exactly what the session holds "
                      "un-synced. A conflict under the default policy must raise and leave memory and disk unchanged; "
                      "otherwise every acknowledged point holds the policy-decided value in memory and on disk and "
                      "nothing un-harvested appears.",
        "level_note": "sync=False harvests are un-acknowledged (documented meaning of sync): they use their own "
                      "coordinate region and may later be present or absent, never wrong. drop_sel/expand_dims are "
                      "only issued when the session's memory is in sync.",
        "evidence": {
            "rule": "each run draws result kind, engine, extension, coordinate type and 1-8 operations with their "
                    "coordinates, version, policy and sync flag; non-trivial = at least 2 operations; distinct = "
                    "distinct (kind, engine, extension, operation sequence with arguments).",
        },
    },
    "C15": {
        "workload": "c15", "level": "exploration",
        "quick": 3000, "thorough": 80000,
        "technique": "deterministic simulation: seeded histories of sample_combos runs, sow_samples/grow/reap runs "
                     "(batches grown in any order by fresh simulated processes, reaped by the session or a fresh "
                     "process) and new sessions over one table file, against a list-of-rows model; np.random seeded "
                     "from the tape",
        "level_text": "Seeded exploration of histories of 1-6 runs with varying n, combos overrides, per-run and "
                      "runner constants, resources, batch sizes, engines pickle and csv, list and generator choices, "
                      "fresh Sampler objects between runs. After every run the table read by a fresh process has "
                      "grown by exactly n, its earlier rows are unchanged, every new row's arguments are allowed "
                      "and its outputs are the function's value at exactly those arguments, runner constants and the "
                      "per-run constants of direct runs are recorded as columns, and the table equals full_df. One crop "
                      "run in four uses 6-14 samples (two-digit batch numbers).",
        "level_note": "Row identity within a run is not checked (draws are random), only row correctness. csv tables "
                      "are compared exactly since fix 46e8459 (they were compared to 1e-12 relative before).",
        "evidence": {
            "rule": "each run draws the function kind, engine, choices (list / tuple / numpy array / stepped range / "
                    "generator, listed in the caller's order; overrides may repeat a choice) and 1-6 operations (a crop "
                    "run may reuse the session's previous Crop object); csv tables are compared exactly; "
                    "non-trivial = at least 2 rows accumulated; distinct = distinct (kind, engine, operation "
                    "sequence with arguments).",
        },
    },
    "C06": {
        "workload": "c06", "level": "exploration",
        "quick": 2000, "thorough": 50000,
        "technique": "deterministic simulation: farmer-backed crops (Runner / Harvester / Sampler) sown, grown in "
                     "tape-chosen order and grouping by fresh simulated processes that reload crop and farmer by "
                     "name, reaped, and compared with a twin - the same farmer description called directly on twin "
                     "storage in the same run",
        "level_text": "Seeded exploration over runner descriptions (1-2 output variables, scalar / 1-d / 2-d internal "
                      "dimensions via var_coords or a constant, Dataset-returning functions with var_names=None, "
                      "constants, resources, attrs), sweeps (grids, case lists, both), batching, shuffle, overwrite "
                      "policy, to_df, storage engine and extension, one or two crops into the same storage. The reaped "
                      "Dataset must be identical (up to dimension order) to the direct run's, the DataFrame equal up "
                      "to row order, farmer.last_ds/last_df must be that object, and the data files of crop side and "
                      "twin side must be identical after every reap.",
        "level_note": "The oracle is xyzpy's own direct path, which is what the property states (labelling itself "
                      "is C03, not claimed). Dimension order and row order are not compared.",
        "evidence": {
            "rule": "each run draws the farmer kind and description, a sweep of <= 16 settings in <= 6 batches, a "
                    "grow partition and reload pattern; non-trivial = every run; distinct = distinct (farmer, result "
                    "kind, N, batches, api, description, rounds, to_df, overwrite).",
        },
    },
    "C16": {
        "workload": "c16", "level": "exploration",
        "quick": 256, "thorough": 6000,
        "shrink_execs": 40, "shrink_wall": 240,
        "technique": "deterministic simulation of the cluster scheduler only: generated SGE/PBS/SLURM scripts are "
                     "checked with bash -n and executed as real bash/python child processes, one per array index, in "
                     "a seeded order with duplicated, pre-empted-before-start and pre-empted-while-running tasks (the "
                     "job's whole process group is killed at the instant it starts evaluating a tape-chosen setting), "
                     "all re-queued; single-mode jobs and the xyzpy-grow CLI likewise; "
                     "call-log, directory-diff and reference-model oracles",
        "level_text": "Seeded exploration over scheduler x mode (array / single / CLI) x crop state (no results, some "
                      "results, explicit batch_ids of length 1..B) x resource-option spellings x crops of 1-8 batches. "
                      "Every script must pass bash -n, every child must finish without a Python or shell error, each "
                      "array task must write exactly its batch's result and evaluate exactly its settings, the header "
                      "range must have exactly len(ids) tasks, and afterwards progress must be exact and the reap equal "
                      "to the reference. A job killed while running must not have published a result for the batch it "
                      "was in, progress must still list that batch as missing, and the re-submitted job must finish the "
                      "work. Weakest fit for the technique: children are real processes run one at a time; the only "
                      "fault inside a child is that kill (C10/C11 cover kills at every file operation and "
                      "interleavings of grow itself).",
        "level_note": "Stubbed: the scheduler (qsub/sbatch), conda activation (conda_env=False), launcher = the venv "
                      "python. Real: bash, python, xyzpy, loky when num_workers is given.",
        "evidence": {
            "rule": "each run sows a crop of 1-8 batches, puts it into one of three states, generates one script (or "
                    "uses the CLI) with seeded options and runs its tasks under the stub scheduler; non-trivial = every "
                    "run (at least one child process); distinct = distinct (batches, state, mode, options, targets).",
        },
    },
}
