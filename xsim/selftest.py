"""Determinism self-test: the same derived seed must give the same event-log
digest (a) twice in one process, (b) under 1 and 16 forked workers, (c) in a
fresh interpreter with another PYTHONHASHSEED.  Any mismatch is exit 2."""
import os
import sys
import json
import time
import subprocess

VERIF = os.path.dirname(os.path.dirname(os.path.abspath(__file__)))

DEFAULT_N = {"C10": 18, "C16": 6, "C05": 120, "C06": 120}


def digests_inprocess(prop, n, start=0, reverse=False):
    from . import registry, runner
    from .tape import derive_seed

    spec = registry.PROPS[prop]
    wl = registry.WORKLOADS[spec["workload"]]
    params = dict(spec.get("params") or {})
    params["tier"] = "quick"
    idx = list(range(start, start + n))
    if reverse:
        idx.reverse()
    out = {}
    for i in idx:
        p = dict(params)
        p["run_index"] = i
        o = runner.execute(prop, wl, seed=derive_seed(0, prop, i), params=p, keep_trace=False)
        if o["harness_error"]:
            out[i] = "HARNESS:" + o["harness_error"][-300:]
        else:
            out[i] = o["digest"] + ("|" + o["violation"]["sig"] if o["violation"] else "")
    return out


def main(argv):
    from . import registry, runner

    if argv and argv[0] == "--digests":
        prop, n = argv[1], int(argv[2])
        d = digests_inprocess(prop, n)
        print("DIGESTS " + json.dumps({str(k): v for k, v in d.items()}))
        return 0
    props = [a.upper() for a in argv if not a.startswith("-")] or sorted(registry.PROPS)
    scale = float(os.environ.get("XSIM_SELFTEST_SCALE", "1"))
    report = {}
    bad = 0
    t00 = time.time()
    for prop in props:
        spec = registry.PROPS[prop]
        n = int(DEFAULT_N.get(prop, 200) * scale)
        t0 = time.time()
        a = digests_inprocess(prop, n)
        b = digests_inprocess(prop, n, reverse=True)
        params = dict(spec.get("params") or {})
        params["tier"] = "quick"
        r1, _, _ = runner.run_batch(prop, spec["workload"], n, 0, params=params, workers=1)
        r16, _, _ = runner.run_batch(prop, spec["workload"], n, 0, params=params, workers=16)
        env = dict(os.environ)
        env["PYTHONHASHSEED"] = "12345"
        cp = subprocess.run([sys.executable, "-m", "xsim.selftest", "--digests", prop, str(n)],
                            env=env, capture_output=True, text=True, cwd=VERIF, timeout=3600)
        line = [ln for ln in cp.stdout.splitlines() if ln.startswith("DIGESTS ")]
        if not line:
            print("selftest {}: fresh interpreter failed:\n{}".format(prop, cp.stderr[-1500:]))
            return 2
        c = {int(k): v for k, v in json.loads(line[0][8:]).items()}
        mism = []
        for i in range(n):
            d1 = {r["i"]: r for r in r1}[i]
            d16 = {r["i"]: r for r in r16}[i]
            vals = {
                "in-process": a[i].split("|")[0], "in-process-reversed": b[i].split("|")[0],
                "1-worker": d1["digest"], "16-workers": d16["digest"],
                "fresh-interpreter-other-hashseed": c[i].split("|")[0],
            }
            if len(set(vals.values())) != 1 or any(v.startswith("HARNESS") for v in vals.values()):
                mism.append((i, vals))
        report[prop] = {"seeds": n, "configurations": 5, "mismatches": len(mism),
                        "wall_s": round(time.time() - t0, 1)}
        print("selftest {}: {} seeds x 5 configurations, {} mismatches ({:.0f}s)".format(
            prop, n, len(mism), time.time() - t0), flush=True)
        for i, vals in mism[:3]:
            print("   run {}: {}".format(i, vals))
        bad += len(mism)
    # the replay files referenced by known_findings.json must still reproduce
    try:
        known = json.load(open(os.path.join(VERIF, "known_findings.json")))
    except OSError:
        known = {"findings": []}
    stale = 0
    for f in known.get("findings", []):
        rp = f.get("replay")
        if not rp:
            continue
        cp = subprocess.run([os.path.join(VERIF, "check"), "--replay", rp],
                            capture_output=True, text=True, cwd=VERIF, timeout=600)
        ok = "REPRODUCED sig=" + f["signature"] in cp.stdout
        print("selftest replay {}: {}".format(os.path.basename(rp),
                                              "reproduces" if ok else "DOES NOT REPRODUCE"), flush=True)
        if not ok:
            stale += 1
    report["_kept_replays_stale"] = stale
    bad += stale
    report["_total_wall_s"] = round(time.time() - t00, 1)
    with open(os.path.join(VERIF, "selftest_report.json"), "w") as f:
        json.dump(report, f, indent=1, sort_keys=True)
    return 2 if bad else 0


if __name__ == "__main__":
    sys.exit(main(sys.argv[1:]))
