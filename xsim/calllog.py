"""The swept functions of every workload and their call log.

A swept function is generated from source (so cloudpickle serialises it *by
value* into xyz-function.clpkl, exactly as a user's notebook function would
be) and its body only forwards to ``call`` below:

    def f(a, b, c=...):
        import xsim.calllog as L
        return L.call('<kind>', {'a': a, 'b': b, 'c': c})

``call`` records the invocation, raises for *poisoned* settings (the
"function fails on chosen settings" fault) and returns ``value(kind, kwargs)``
- an injective function of the arguments, so that any result value identifies
the one setting that produced it.  The reference model evaluates ``value``
directly; xyzpy is never used to compute expectations.

In child processes (C16) the log goes to the file named by $XSIM_CALLLOG.
"""
import os
import json
import hashlib

import numpy as np

LOG = []  # list of (kind, sorted-kwargs-tuple)
POISON = set()  # frozenset(kwargs.items()) for which the function raises
POISON_EXC = [None]  # exception class a poisoned setting raises (None: FnError)
HOOK = None  # optional callable(kind, kwargs) run before returning (simexec)


class FnError(RuntimeError):
    """raised by a poisoned swept function"""


def reset():
    del LOG[:]
    POISON.clear()
    POISON_EXC[0] = None


def key(kwargs):
    return tuple(sorted((k, _plain(v)) for k, v in kwargs.items()
                        if not isinstance(v, (list, tuple, np.ndarray))))


def _plain(v):
    if isinstance(v, np.generic):
        return v.item()
    return v


def _norm(v):
    v = _plain(v)
    if isinstance(v, bool):
        return ("b", v)
    if isinstance(v, (int, float)):
        return ("n", float(v))  # 1 and 1.0 are the same argument value
    if isinstance(v, str):
        return ("s", v)
    raise TypeError("unsupported swept value %r" % (v,))


def number(kwargs):
    """A 48-bit integer that identifies the keyword arguments (names and values;
    list-valued arguments such as coordinate constants are ignored): a keyed
    hash, so that any result value identifies the one setting that produced it
    for any number of arguments (collisions among the few hundred settings of a
    run have probability ~ 1e-10), exactly representable as float64 and int64."""
    items = tuple(sorted((k, _norm(v)) for k, v in kwargs.items()
                         if not isinstance(v, (list, tuple, np.ndarray))))
    h = hashlib.blake2b(repr(items).encode(), digest_size=6).digest()
    return int.from_bytes(h, "big")


def scalar(kwargs):
    """number/8: three binary places, exact in float64 together with +-1, +0.5, *2"""
    return number(kwargs) / 8.0


NEAR = 1.0 + 2.0 ** -41  # relative 4.5e-13: a different float, closer than any sane tolerance


def value(kind, kwargs):
    ver = kwargs.get("ver")
    if isinstance(ver, int) and not isinstance(ver, bool) and ver >= 10 and kind in ("scalar", "tuple2"):
        # versions 10, 11, ...: what version 0, 1, ... returns, off by a relative 2**-41 - a
        # genuinely different value that a tolerance-based comparison would call equal
        base = value(kind, dict(kwargs, ver=ver - 10))
        return base * NEAR if kind == "scalar" else tuple(x * NEAR for x in base)
    s = scalar(kwargs)
    if kind == "scalar":
        return s
    if kind == "int":
        return number(kwargs)
    if kind == "tuple2":
        return (s, -s - 1.0)
    if kind == "tuple3":
        return (s, -s - 1.0, s * 0.5 + 3.0)
    if kind in ("array", "array-constdim"):  # one output that is a length-3 list
        return [s, s + 0.5, -s]
    if kind == "nones":  # None is a legal result
        return None if number(kwargs) % 3 == 0 else s
    if kind == "holes":  # a function that legitimately returns nan for some settings
        return float("nan") if number(kwargs) % 4 == 0 else s
    if kind == "npscalar":  # a numpy scalar, as numerical code returns
        return np.float64(s)
    if kind == "complex":
        return complex(s, 0.5)
    if kind == "ndarray":  # the same as a numpy array (what user functions usually return)
        return np.array([s, s + 0.5, -s])
    if kind == "intarray":  # integer dtype: nan does not fit into it
        n = number(kwargs)
        return np.array([n, n + 1, -n], dtype=np.int64)
    if kind == "ndarray2d":  # 3 x 2: first axis = what split=True separates
        return np.array([[s, s + 1.0], [s + 2.0, -s], [s * 0.5, s + 3.0]])
    if kind == "scalar+array":  # two outputs: scalar and 2x2 nested list
        return (s, [[s, s + 1.0], [s + 2.0, -s]])
    if kind == "bool":
        return number(kwargs) % 3 == 0
    if kind == "str":
        return "r" + "|".join("{}={}".format(k, _plain(kwargs[k])) for k in sorted(kwargs))
    if kind == "dict":  # -> Dataset-like dict of scalars (var_names=None)
        return {"u": s, "v": -s - 1.0}
    if kind == "dataset":
        import xarray as xr

        return xr.Dataset({"u": ("t", np.array([s, s + 1.0])), "v": s * 2.0},
                          coords={"t": [10, 20]})
    raise ValueError(kind)


_SLOW = None


def _slow_keys():
    """child processes only (C16): settings whose evaluation takes longer, so that
    a real worker pool finishes a later case before an earlier one"""
    global _SLOW
    if _SLOW is None:
        _SLOW = set()
        path = os.environ.get("XSIM_SLOW_KEYS")
        if path and os.path.exists(path):
            with open(path) as f:
                _SLOW = {tuple((a, b) for a, b in k) for k in json.load(f)}
    return _SLOW


def call(kind, kwargs):
    k = key(kwargs)
    path = os.environ.get("XSIM_CALLLOG")
    if path:
        with open(path, "a") as f:
            f.write(json.dumps([kind, [list(x) for x in k]]) + "\n")
        if k in _slow_keys():
            import time

            time.sleep(float(os.environ.get("XSIM_SLOW_SECONDS", "0.4")))
        kp = os.environ.get("XSIM_KILL_KEYS")
        if kp and os.path.exists(kp) and not os.path.exists(kp + ".fired"):
            # the stub scheduler pre-empts the job (SIGKILL to its whole process group,
            # worker pool included) at the instant this setting starts being evaluated
            with open(kp) as f:
                kill = {tuple((a, b) for a, b in kk) for kk in json.load(f)}
            if k in kill:
                import signal

                open(kp + ".fired", "w").close()
                os.killpg(os.getpgid(0), signal.SIGKILL)
    LOG.append((kind, k))
    if POISON and k in POISON:
        raise (POISON_EXC[0] or FnError)("poisoned setting %r" % (k,))
    if HOOK is not None:
        HOOK(kind, kwargs)
    return value(kind, kwargs)


def make_fn(kind, argnames, name="xfn", defaults=None, decorated=False):
    """Build the swept function from source; cloudpickle will pickle it by
    value because its module is not importable.  decorated: the function is a
    functools.wraps wrapper (it has a __wrapped__ chain) around an inner function
    whose results differ from the wrapper's - what the user runs is the wrapper."""
    defaults = defaults or {}
    params = ", ".join(
        "{}={!r}".format(a, defaults[a]) if a in defaults else a for a in argnames
    )
    kw = ", ".join("{0!r}: {0}".format(a) for a in argnames)
    if decorated:
        src = (
            "import functools\n"
            "def _inner({params}, _d=0):\n"
            "    import xsim.calllog as L\n"
            "    return L.call({kind!r}, {{{kw}, '_d': _d}})\n"
            "@functools.wraps(_inner)\n"
            "def {name}({params}):\n"
            "    return _inner({passed}, _d=1)\n"
        ).format(name=name, params=params, kind=kind, kw=kw,
                 passed=", ".join("{0}={0}".format(a) for a in argnames))
    else:
        src = (
            "def {name}({params}):\n"
            "    import xsim.calllog as L\n"
            "    return L.call({kind!r}, {{{kw}}})\n"
        ).format(name=name, params=params, kind=kind, kw=kw)
    ns = {"__name__": "__xsim_dynamic__"}
    exec(compile(src, "<xsim-fn-{}>".format(name), "exec"), ns)
    fn = ns[name]
    fn.__module__ = "__xsim_dynamic__"
    fn._xsim_src = src
    return fn


def read_child_log(path):
    out = []
    if not os.path.exists(path):
        return out
    with open(path) as f:
        for line in f:
            kind, k = json.loads(line)
            out.append((kind, tuple((a, b) for a, b in k)))
    return out
