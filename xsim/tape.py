"""ChoiceTape: the only source of decisions in a simulated run.

generate mode : values come from random.Random(seed) and are recorded
replay mode   : values come from a recorded list; when the list is exhausted
                or a value is out of range the choice is 0, which every
                generator in xsim treats as the *simplest* alternative
                (no fault, keep running the current actor, stop generating
                operations, smallest size ...).  That convention is what makes
                generic tape shrinking (xsim.shrink) produce small schedules.
"""
import hashlib
import random


def derive_seed(root_seed, prop, run_index, salt=""):
    h = hashlib.sha256(
        "{}|{}|{}|{}".format(int(root_seed), prop, int(run_index), salt).encode()
    ).digest()
    return int.from_bytes(h[:8], "big")


class Tape:
    __slots__ = ("rng", "replay", "pos", "rec", "seed", "labels", "marks")

    def __init__(self, seed=None, replay=None, labels=True):
        self.seed = seed
        self.replay = None if replay is None else list(replay)
        self.rng = random.Random(seed) if replay is None else None
        self.pos = 0
        self.rec = []  # recorded values (after clamping) - the canonical tape
        self.labels = [] if labels else None
        self.marks = []  # positions in rec where a generated operation begins

    # ------------------------------------------------------------------ core
    def choose(self, n, label=""):
        """Return an int in [0, n).  n <= 1 consumes nothing."""
        if n <= 1:
            return 0
        if self.replay is None:
            v = self.rng.randrange(n)
        else:
            if self.pos < len(self.replay):
                v = self.replay[self.pos]
                if not (0 <= v < n):
                    v = 0
            else:
                v = 0
            self.pos += 1
        self.rec.append(v)
        if self.labels is not None:
            self.labels.append((label, n))
        return v

    def mark(self):
        """A generated operation starts here: the shrinker tries to delete whole
        operations (the span up to the next mark) before anything finer."""
        if not self.marks or self.marks[-1] != len(self.rec):
            self.marks.append(len(self.rec))

    # --------------------------------------------------------------- helpers
    def flag(self, num, den, label=""):
        """True with probability num/den; 0 (=False) is the simple choice."""
        if num <= 0:
            return False
        return self.choose(den, label) >= den - num

    def pick(self, seq, label=""):
        return seq[self.choose(len(seq), label)]

    def weighted(self, pairs, label=""):
        """pairs = [(item, weight), ...]; first item is the simplest."""
        tot = sum(w for _, w in pairs)
        v = self.choose(tot, label)
        for item, w in pairs:
            if v < w:
                return item
            v -= w
        return pairs[-1][0]

    def int_between(self, lo, hi, label=""):
        """inclusive; lo is simplest"""
        return lo + self.choose(hi - lo + 1, label)

    def perm(self, seq, label=""):
        """Fisher-Yates driven by the tape; all-zero tape = identity."""
        seq = list(seq)
        out = []
        while seq:
            out.append(seq.pop(self.choose(len(seq), label)))
        return out

    def subset(self, seq, label="", num=1, den=2):
        return [x for x in seq if self.flag(num, den, label)]

    def exhausted(self):
        return self.replay is not None and self.pos >= len(self.replay)
