"""Run one simulated execution, or a seeded batch of them on all cores."""
import os
import sys
import json
import time
import shutil
import signal
import tempfile
import traceback
import faulthandler
import collections
import concurrent.futures
import multiprocessing

from . import interpose, calllog
from .tape import Tape, derive_seed
from .world import World, Violation, HarnessError, SimAbort, SimCrash

XSIM_TMP = os.environ.get("XSIM_TMP", "/dev/shm")
RUN_WALL = int(os.environ.get("XSIM_RUN_WALL", "240"))


_DEVNULL = open(os.devnull, "w")


class HarnessTimeout(BaseException):
    pass


class Ctx:
    """What a workload sees of one run."""

    def __init__(self, prop, tape, base, params):
        self.prop = prop
        self.tape = tape
        self.base = base  # private tmp dir of this run (outside any world root)
        self.params = params or {}
        self.trace = []  # human readable operation / fault trace
        self.stats = collections.Counter()
        self.key = None  # workload-defined distinctness key (else the digest)
        self.nontrivial = False
        self.worlds = []
        self.distinct = set()  # workload-defined state hashes (e.g. crash states)
        self.sim_time = 0.0
        self._nroot = 0

    def t(self, *what):
        """append to the human-readable trace (never draws, never reads clocks)"""
        self.trace.append(" ".join(str(w) for w in what))

    def new_root(self, tag="w"):
        self._nroot += 1
        d = os.path.join(self.base, "{}{}".format(tag, self._nroot))
        os.makedirs(d)
        return d

    def world(self, cfg=None, root=None):
        w = World(self.tape, root or self.new_root(), cfg)
        w.scratch = os.path.join(self.base, "scratch")
        if not os.path.isdir(w.scratch):
            os.makedirs(w.scratch)
        self.worlds.append(w)
        interpose.set_world(w)
        return w

    def digest(self):
        import hashlib

        h = hashlib.sha256()
        for w in self.worlds:
            h.update(w.digest().encode())
        h.update(repr(self.trace).encode())
        return h.hexdigest()[:32]


def _alarm(signum, frame):
    raise HarnessTimeout()


_CACHES = {"nmods": -1, "objs": []}


def _reset_code_under_test():
    """One run = one fresh 'process' of the library: memoised state that the code
    under test keeps at module level (functools caches on functions and methods)
    is cleared, so that a run cannot depend on the runs this worker did before."""
    # the process-wide random generators are state too: a run must not depend on how far
    # earlier runs (or the interpreter's start-up seeding) have advanced them
    import random as _random

    _random.seed(0x5EED)
    try:
        import numpy as _np

        _np.random.seed(0x5EED)
    except Exception:
        pass
    if os.environ.get("XSIM_NO_RESET") == "1":  # (to exercise the cli's fresh-interpreter fallback)
        return
    mods = [m for n, m in list(sys.modules.items())
            if (n == "xyzpy" or n.startswith("xyzpy.")) and m is not None]
    if len(mods) != _CACHES["nmods"]:
        objs = []
        for m in mods:
            for v in list(vars(m).values()):
                if callable(getattr(v, "cache_clear", None)):
                    objs.append(v)
                elif isinstance(v, type) and getattr(v, "__module__", "").startswith("xyzpy"):
                    for u in list(vars(v).values()):
                        u = getattr(u, "__func__", u)
                        if callable(getattr(u, "cache_clear", None)):
                            objs.append(u)
        _CACHES["nmods"], _CACHES["objs"] = len(mods), objs
    for o in _CACHES["objs"]:
        try:
            o.cache_clear()
        except Exception:
            pass


def execute(prop, workload, seed=None, replay=None, params=None, keep_trace=True, tmp=None):
    """One run.  Returns a JSON-able outcome dict."""
    interpose.install()
    _reset_code_under_test()
    # Every run lives in <XSIM_TMP>/xsimb-XXXXXXXX/xsim-PPPPPPPP-XXXXXXXX: the batch
    # directory is swept when the batch ends (also after a crashed worker), and the
    # fixed-width names keep pickled absolute paths equally long in every process -
    # otherwise write sizes (part of the event log) would depend on the pid.
    own_tmp = None
    if tmp is None:
        tmp = own_tmp = tempfile.mkdtemp(prefix="xsimb-", dir=XSIM_TMP)
    base = tempfile.mkdtemp(prefix="xsim-{:08d}-".format(os.getpid() % 10**8), dir=tmp)
    tape = Tape(seed=seed, replay=replay)
    ctx = Ctx(prop, tape, base, params)
    calllog.reset()
    out = {"violation": None, "harness_error": None}
    old = signal.signal(signal.SIGALRM, _alarm)
    # progress bars of the code under test go to a sink (fd 2 stays for faulthandler)
    old_stderr = sys.stderr
    old_stdout = sys.stdout
    if os.environ.get("XSIM_SHOW_STDERR") != "1":
        sys.stderr = _DEVNULL
        sys.stdout = _DEVNULL
    signal.alarm(RUN_WALL)
    t0 = time.perf_counter()
    try:
        try:
            workload(ctx)
        finally:
            signal.alarm(0)
    except Violation as v:
        out["violation"] = {
            "sig": v.signature(), "oracle": v.oracle, "site": v.site,
            "msg": v.msg[:2000], "details": v.details,
        }
    except HarnessTimeout:
        out["harness_error"] = "run exceeded {}s wall\n{}".format(
            RUN_WALL, "\n".join(ctx.trace[-20:]))
    except (HarnessError, SimAbort, SimCrash) as e:
        out["harness_error"] = "{}: {}\n{}".format(
            type(e).__name__, e, traceback.format_exc())
    except Exception as e:  # a bug in the harness - never a violation
        out["harness_error"] = "{}: {}\n{}".format(
            type(e).__name__, e, traceback.format_exc())
    finally:
        signal.signal(signal.SIGALRM, old)
        sys.stderr = old_stderr
        sys.stdout = old_stdout
        for w in ctx.worlds:
            w.aborting = True
            if w.sched is not None:
                w.sched.shutdown()
        interpose.set_world(None)
        shutil.rmtree(base, ignore_errors=True)
        if own_tmp is not None:
            shutil.rmtree(own_tmp, ignore_errors=True)
    fired = collections.Counter()
    probes = collections.Counter()
    ops = collections.Counter()
    for w in ctx.worlds:
        fired.update(w.fired)
        probes.update(w.probes)
        ops.update(w.opcounts)
        ctx.sim_time += w.clock
    out.update({
        "digest": ctx.digest(),
        "key": ctx.key if ctx.key is not None else ctx.digest(),
        "nontrivial": bool(ctx.nontrivial),
        "tape": list(tape.rec),
        "marks": list(tape.marks),
        "tape_len": len(tape.rec),
        "fired": dict(fired),
        "probes": dict(probes),
        "stats": dict(ctx.stats),
        "nops": sum(ops.values()),
        "sim_time": ctx.sim_time,
        "wall": time.perf_counter() - t0,
        "distinct": sorted(ctx.distinct)[:4000],
    })
    if keep_trace:
        out["trace"] = ctx.trace[:400]
        if out["violation"] is not None or out["harness_error"]:
            tail = []
            for w in ctx.worlds:
                tail.extend(list(e) for e in w.log[-60:])
            out["event_tail"] = tail[-120:]
    return out


# ----------------------------------------------------------------- batch


def _worker(args):
    prop, workload_name, root_seed, indices, params, want_samples, batch_tmp = args
    faulthandler.enable()
    from . import registry

    workload = registry.WORKLOADS[workload_name]
    res = []
    for i in indices:
        seed = derive_seed(root_seed, prop, i)
        p = dict(params or {})
        p["run_index"] = i
        o = execute(prop, workload, seed=seed, params=p,
                    keep_trace=True, tmp=batch_tmp)
        slim = {
            "i": i, "seed": seed, "digest": o["digest"], "key": o["key"],
            "nontrivial": o["nontrivial"], "fired": o["fired"],
            "probes": o["probes"], "stats": o["stats"], "nops": o["nops"],
            "sim_time": o["sim_time"], "wall": o["wall"],
            "tape_len": o["tape_len"], "distinct": o["distinct"],
            "violation": o["violation"], "harness_error": o["harness_error"],
        }
        if o["violation"] is not None or o["harness_error"]:
            slim["tape"] = o["tape"]
            slim["trace"] = o.get("trace")
            slim["event_tail"] = o.get("event_tail")
        elif i in want_samples:
            slim["trace"] = o.get("trace")
        res.append(slim)
    return res


def run_batch(prop, workload_name, nruns, root_seed, params=None, workers=None,
              wall_cap=None, start_index=0, progress=True):
    """Run nruns seeded executions split over forked workers.  Each run's seed
    depends only on (root_seed, prop, run index)."""
    workers = workers or int(os.environ.get("XSIM_WORKERS", os.cpu_count() or 4))
    chunk = max(1, min(200, nruns // (workers * 4) or 1))
    idx = list(range(start_index, start_index + nruns))
    chunks = [idx[k:k + chunk] for k in range(0, len(idx), chunk)]
    want = set(idx[:3])
    t0 = time.time()
    results = []
    timed_out = False
    ctxmp = multiprocessing.get_context("fork")
    batch_tmp = tempfile.mkdtemp(prefix="xsimb-", dir=XSIM_TMP)
    try:
        return _run_batch(prop, workload_name, root_seed, params, workers, wall_cap,
                          chunks, want, batch_tmp, ctxmp, t0)
    finally:
        shutil.rmtree(batch_tmp, ignore_errors=True)


def _run_batch(prop, workload_name, root_seed, params, workers, wall_cap, chunks, want,
               batch_tmp, ctxmp, t0):
    results = []
    timed_out = False
    with concurrent.futures.ProcessPoolExecutor(workers, mp_context=ctxmp) as ex:
        futs = [ex.submit(_worker, (prop, workload_name, root_seed, c, params, want, batch_tmp))
                for c in chunks]
        try:
            for f in concurrent.futures.as_completed(
                    futs, timeout=wall_cap if wall_cap else None):
                results.extend(f.result())
        except concurrent.futures.TimeoutError:
            timed_out = True
            for f in futs:
                f.cancel()
            for p in list(getattr(ex, "_processes", {}).values()):
                try:
                    p.terminate()
                except Exception:
                    pass
    results.sort(key=lambda r: r["i"])
    return results, time.time() - t0, timed_out
