"""Reference models (oracles).  Nothing here calls xyzpy."""
import math
import itertools

import numpy as np

from . import calllog


# ----------------------------------------------------------------- comparison


def is_missing(x):
    """Is x an all-missing placeholder (NaN / None / all-NaN array / all-NaN
    Dataset / sequence of those)?"""
    if x is None:
        return True
    if isinstance(x, (bool, str, np.bool_)):
        return False
    if isinstance(x, (float, np.floating)):
        return math.isnan(float(x))
    if isinstance(x, (complex, np.complexfloating)):
        return math.isnan(x.real) or math.isnan(x.imag)
    if isinstance(x, (int, np.integer)):
        return False
    if isinstance(x, np.ndarray):
        if x.dtype.kind in "fc":
            return bool(np.all(np.isnan(x)))
        if x.dtype.kind == "O":
            return all(is_missing(v) for v in x.ravel().tolist())
        return False
    if isinstance(x, (tuple, list)):
        return len(x) > 0 and all(is_missing(v) for v in x)
    try:
        import xarray as xr

        if isinstance(x, xr.Dataset):
            return all(bool(x[v].isnull().all()) for v in x.data_vars) and len(x.data_vars) > 0
        if isinstance(x, xr.DataArray):
            return bool(x.isnull().all())
    except ImportError:  # pragma: no cover
        pass
    if isinstance(x, dict):
        return len(x) > 0 and all(is_missing(v) for v in x.values())
    return False


def same(x, y):
    """Exact, NaN-aware, list/tuple-insensitive equality of result values."""
    if isinstance(x, (tuple, list)) or isinstance(y, (tuple, list)):
        if isinstance(x, np.ndarray):
            x = x.tolist()
        if isinstance(y, np.ndarray):
            y = y.tolist()
        if not (isinstance(x, (tuple, list)) and isinstance(y, (tuple, list))):
            return False
        return len(x) == len(y) and all(same(a, b) for a, b in zip(x, y))
    if isinstance(x, np.ndarray) or isinstance(y, np.ndarray):
        x = np.asarray(x)
        y = np.asarray(y)
        if x.shape != y.shape:
            return False
        if x.dtype.kind == "O" or y.dtype.kind == "O":
            return all(same(a, b) for a, b in zip(x.ravel().tolist(), y.ravel().tolist()))
        try:
            return bool(np.array_equal(x, y, equal_nan=True))
        except TypeError:
            return bool(np.array_equal(x, y))
    try:
        import xarray as xr

        if isinstance(x, (xr.Dataset, xr.DataArray)) or isinstance(y, (xr.Dataset, xr.DataArray)):
            if isinstance(x, dict):
                x = xr.Dataset(x)
            if isinstance(y, dict):
                y = xr.Dataset(y)
            if type(x) is not type(y):
                return False
            return bool(x.identical(y))
    except ImportError:  # pragma: no cover
        pass
    if isinstance(x, dict) and isinstance(y, dict):
        return x.keys() == y.keys() and all(same(x[k], y[k]) for k in x)
    if isinstance(x, (bool, np.bool_)) or isinstance(y, (bool, np.bool_)):
        return isinstance(x, (bool, np.bool_)) and isinstance(y, (bool, np.bool_)) and bool(x) == bool(y)
    if isinstance(x, str) or isinstance(y, str):
        return isinstance(x, str) and isinstance(y, str) and x == y
    if x is None or y is None:
        return x is None and y is None
    try:
        fx, fy = float(x), float(y)
    except (TypeError, ValueError):
        return x == y
    if math.isnan(fx) or math.isnan(fy):
        return math.isnan(fx) and math.isnan(fy)
    return fx == fy


def short(x, n=120):
    s = repr(x)
    return s if len(s) <= n else s[: n - 3] + "..."


# ------------------------------------------------------------------ reference


def plain(v):
    if isinstance(v, np.generic):
        return v.item()
    return v


class Sweep:
    """A sweep request in harness terms.

    combos    : list of (arg, [values])   in the order the *user* gives them
    cases     : list of dicts or None     (all with the same keys, same order)
    constants : dict
    kind      : result kind for calllog.value
    """

    def __init__(self, kind, combos, cases=None, constants=None):
        self.kind = kind
        self.combos = [(a, list(v)) for a, v in (combos or [])]
        self.cases = [dict(c) for c in cases] if cases else None
        self.constants = dict(constants or {})

    @property
    def case_args(self):
        return list(self.cases[0].keys()) if self.cases else []

    def n(self):
        n = 1
        for _, v in self.combos:
            n *= len(v)
        return n * (len(self.cases) if self.cases else 1)

    def axes(self, sort_combos=False):
        """[(arg, coord values)] of the nested output: case arguments first
        (sorted union of their values), then the grid arguments."""
        ax = []
        for a in self.case_args:
            vals = {c[a] for c in self.cases}
            try:
                vals = sorted(vals)
            except TypeError:
                vals = list(vals)
            ax.append((a, vals))
        combos = self.combos
        if sort_combos:
            combos = sorted(combos, key=lambda x: x[0])
        ax.extend((a, list(v)) for a, v in combos)
        return ax

    def settings(self, sort_combos=False):
        """Every requested setting once, in direct-run order:
        [(loc-dict without constants, kwargs with constants)]"""
        combos = self.combos
        if sort_combos:
            combos = sorted(combos, key=lambda x: x[0])
        out = []
        for case in (self.cases or [{}]):
            for vals in itertools.product(*[v for _, v in combos]):
                loc = dict(case)
                loc.update(zip([a for a, _ in combos], vals))
                kw = dict(loc)
                kw.update(self.constants)
                out.append((loc, kw))
        return out

    def expected(self):
        """{frozenset(loc.items()) : value} for every requested setting."""
        return {
            frozenset((k, plain(v)) for k, v in loc.items()): calllog.value(self.kind, kw)
            for loc, kw in self.settings()
        }

    def expected_calls(self):
        # (by repr: one argument's values may be of different types)
        return sorted((calllog.key(kw) for _, kw in self.settings()), key=repr)


def walk_nested(nested, axes):
    """Yield (loc-frozenset, element) for a nested tuple indexed by axes."""
    shape = [len(v) for _, v in axes]

    def rec(obj, depth, loc):
        if depth == len(axes):
            yield frozenset(loc), obj
            return
        if not isinstance(obj, (tuple, list)) or len(obj) != shape[depth]:
            raise ShapeMismatch(
                "axis {} ({}) expected length {} got {}".format(
                    depth, axes[depth][0], shape[depth], short(obj, 60)))
        a, vals = axes[depth]
        for v, sub in zip(vals, obj):
            yield from rec(sub, depth + 1, loc + [(a, plain(v))])

    yield from rec(nested, 0, [])


class ShapeMismatch(Exception):
    pass


def compare_nested(nested, sweep, sort_combos, finished_locs=None):
    """Compare a raw nested result with the reference.  A raw nested tuple
    carries no labels; the crop nests grid arguments sorted by name, a direct
    run in the order given.  Both are 'the value at every grid position', so
    the comparison accepts either axis order (values are injective, a
    mis-placed value cannot pass under the other order by accident unless the
    two orders coincide)."""
    first = _compare_nested(nested, sweep, sort_combos, finished_locs)
    if first is None:
        return None
    if _compare_nested(nested, sweep, not sort_combos, finished_locs) is None:
        return None
    return first


def _compare_nested(nested, sweep, sort_combos, finished_locs=None):
    """Compare a nested result with the reference.

    finished_locs: None -> every requested setting must hold its exact value.
                   else a set of loc-frozensets that are finished; requested
                   but unfinished ones must be missing placeholders.
    Returns None if equal, else a (kind, message) tuple describing the first
    mismatch (in deterministic order)."""
    exp = sweep.expected()
    axes = sweep.axes(sort_combos)
    try:
        got = list(walk_nested(nested, axes))
    except ShapeMismatch as e:
        return ("shape", str(e))
    seen = set()
    for loc, val in got:
        seen.add(loc)
        if loc in exp and (finished_locs is None or loc in finished_locs):
            if not same(val, exp[loc]):
                owner = [dict(l) for l, v in exp.items() if same(v, val)]
                return ("wrong-value", "at {} expected {} got {}{}".format(
                    dict(sorted(loc)), short(exp[loc], 60), short(val, 60),
                    " (that is the value of {})".format(owner[0]) if owner else ""))
        else:
            if not is_missing(val):
                return ("not-missing", "at {} expected a missing placeholder got {}".format(
                    dict(sorted(loc)), short(val, 60)))
    lost = [l for l in exp if l not in seen]
    if lost:
        return ("absent", "requested location {} not in output".format(dict(sorted(lost[0]))))
    return None
