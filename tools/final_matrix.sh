#!/bin/bash
# The sensitivity / false-alarm runs on one frozen state of the harness, all on scratch copies of
# /repo/xyzpy (XSIM_REPO), so /repo itself is never touched:
#   1. every seeded change against the check of its own property      -> seeded/RESULTS_own.tsv
#   2. every refactoring R-r* against every claimed check              -> seeded/RESULTS_refactorings.tsv
#   3. ./check --mutants                                              -> mutants/RESULTS.json
# With FULL=1 additionally every seeded change against every claimed check -> seeded/RESULTS.tsv
# Usage: tools/final_matrix.sh [outdir]   (outdir defaults to this tree's seeded/; give /verif/seeded when
# running from a `vp run` snapshot)
here="$(cd "$(dirname "${BASH_SOURCE[0]}")/.." && pwd)"
cd "$here" || exit 2
outdir="${1:-$here/seeded}"
export XSIM_SEEDED_OUT=$outdir/RESULTS_own.tsv
: > $XSIM_SEEDED_OUT
for d in seeded/S-*; do id=$(basename $d); p=$(echo $id | cut -d- -f2); tools/run_seeded_copy.sh $id $p; done
echo OWN-DONE
export XSIM_SEEDED_OUT=$outdir/RESULTS_refactorings.tsv
: > $XSIM_SEEDED_OUT
tools/run_seeded_copy.sh 'R-r*'
echo REFACTORINGS-DONE
./check --mutants > $outdir/../mutants_final.log 2>&1
cp mutants/RESULTS.json $outdir/../mutants/RESULTS.json 2>/dev/null
echo MUTANTS-DONE
if [ "$FULL" = "1" ]; then
  export XSIM_SEEDED_OUT=$outdir/RESULTS.tsv
  : > $XSIM_SEEDED_OUT
  tools/run_seeded_copy.sh 'S-*'
  echo FULL-DONE
fi
