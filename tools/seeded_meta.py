#!/usr/bin/env python3
"""Write meta.json for the round-4 to -12 seeded changes from RESULTS.tsv (run after tools/run_seeded.sh)."""
import json, os, collections
V = "/verif/seeded"
DESC = {
 "S-C01-4": ("combo_runner_core: a 'sanity guard' compares len(results) with len(settings) by identity (`is not`)",
             "more than 256 settings (CPython's small-int cache): all 5 arguments with a size product >= 288; the sweep raises RuntimeError after evaluating everything"),
 "S-C04-4": ("Crop.reap_combos / reap_combos_to_ds use self.shuffle instead of the shuffle recorded in the settings file",
             "sown with a truthy shuffle and reaped by a Crop re-created from disk (which does not restore shuffle): values land at wrong positions"),
 "S-C05-4": ("Harvester.add_ds with overwrite=True blanks the whole region covered by the new dataset before filling from the old data",
             "harvest_cases(overwrite=True) whose nan-padded bounding grid covers older points at non-case positions: those points become nan"),
 "S-C06-4": ("Crop.reap for a Harvester crop forwards overwrite only when it is truthy, so overwrite=False becomes the default None",
             "a second harvest into an existing file through a crop reaped with overwrite=False over conflicting coordinates: MergeError instead of keeping the old values"),
 "S-C08-4": ("Crop.missing_results memoises its answer keyed on (num_batches, #batch files, #result files)",
             "two queries of the same Crop object with a deletion and a compensating grow in between (file counts unchanged, set changed), no query in between"),
 "S-C09-4": ("Crop.all_nan_result: when none of batches 1..5 is finished the fallback passes the whole tuple of the reference batch's results to nan_like_result",
             "partial reap of a 6- or 7-batch crop whose finished batches are all numbered above 5"),
 "S-C10-4": ("Crop.choose_batch_settings: re-sowing an existing crop checks the layout with a whole extra batchsize for a non-zero remainder",
             "num_batches=N crops with (n mod N) > (n // N), e.g. n=5 N=3, killed during sowing after the settings file was published: the recovery re-sow raises ValueError"),
 "S-C11-4": ("Reaper wait_to_load polls all missing results, records the arrival order and re-orders with the permutation instead of its inverse",
             "reap(wait=True) on a 3-batch crop whose results arrive in a 3-cycle order, (2,3,1) or (3,1,2)"),
 "S-C12-4": ("Harvester.add_ds skips the save when the merged dataset is identical to the in-memory one",
             "harvester crop, first-ever save fails (disk full), the corrected retry goes through the same Crop/Harvester object: nothing is saved, the crop is deleted"),
 "S-C15-4": ("complete DataFrame reaps read their result files from sorted(glob(...)), i.e. in lexicographic order",
             "a sow_samples/grow/reap run with 10 or more batches: output columns attached to other rows"),
 "S-C16-4": ("gen_cluster_script uses the 'all batches' template when batch_ids[-1] == len(batch_ids)",
             "array mode with unsorted explicit batch_ids whose last element equals their number but which are not 1..k, e.g. (2,4,3): task i grows batch i"),
 "S-C08-5": ("write_to_disk: os.replace(tmp, final) indented into the `with open(tmp)` block - renamed before flush/close",
             "a grow whose result write hits a full disk: small results reach the kernel only at the flush on close, by then the (empty) file already carries the result's name and counts as finished"),
 "S-C09-5": ("Reaper.__exit__ 'tidies up' results/*.tmp",
             "a partial reap finishing while a grower is between creating its temporary file and renaming it: the grower fails with FileNotFoundError, its batch is lost"),
 "S-C10-5a": ("Crop.ensure_dirs_exists returns early when the crop directory exists, otherwise makedirs without exist_ok",
              "kill during the first sow between the directory creations (after <crop>/ or after <crop>/batches): every re-sow skips the mkdirs, grows / re-sows fail with FileNotFoundError forever"),
 "S-C10-5b": ("Harvester.load_full_ds / Sampler.load_full_df 'finish an interrupted save' by promoting a left-over .tmp-<datafile> sibling",
              "kill of a harvester / sampler reap while the sibling is half written (good data file replaced by a truncated one) or after it is complete but before the rename (rows appended twice)"),
 "S-C11-5a": ("Reaper wait_to_load: after a failed exists() it samples the mtime of results/ and sleeps until that changes",
              "the grower's rename lands between the reaper's exists() and its first stat of results/ and is the last change of the directory: reap(wait=True) never returns (lost wake-up)"),
 "S-C11-5b": ("write_to_disk: os.replace(tmp, final) indented into the `with open(tmp)` block (same edit as S-C08-5, written against C11)",
              "a reader between the grower's rename and its flush/close sees an empty file under the result's name: EOFError in the waiting reap, progress counts it as finished"),
 "S-C12-5a": ("Reaper _load: an exception while reading a result file removes that file before re-raising",
              "any failure while loading a result during a reap (unreadable / truncated file): the failed reap has deleted a crop file"),
 "S-C12-5b": ("Harvester.save_full_ds / Sampler.save_full_df write straight to the final name when the data file does not exist yet",
              "first-ever save fails part-way (disk full): a truncated file sits under the data name and every corrected retry fails loading it"),
 "S-C01-6": ("_run_linear_executor: duck-typed executors get a 'block on the oldest, sweep up whatever else finished' collector whose result index drifts after compaction",
             "a supplied (non-stdlib) executor whose tasks complete so that a later task has finished while one between it and the oldest has not, e.g. completion order [2, 0, 1, 3]: values land in other combinations' slots"),
 "S-C04-6": ("write_to_disk: fixed temporary name fname + '.tmp' (same idea as S-C11-1, written against C04's 'parallel growing')",
             "the same batch grown by two workers whose result writes overlap: the second rename fails with FileNotFoundError and that worker's remaining batches are never grown"),
 "S-C05-6": ("Harvester.add_ds snapshots _full_ds on entry (before the sync reload) and restores it when the default-policy merge raises",
             "two sessions on one data name: A harvests, B harvests disjoint points, A's conflicting harvest is refused - A's memory rolls back to its stale view (memory != disk), a later drop_sel/expand_dims of A saves it and B's points are lost"),
 "S-C06-6": ("from_pickle decorated with functools.lru_cache",
             "the crop and its farmer reloaded by name more than once in one interpreter session: both reloads share one mutable farmer object, the second raises 'farmer already has a function set'"),
 "S-C15-6": ("Sampler.add_df reindexes the new rows to the existing table's columns instead of concat(sort=True)",
             "a later run that brings a new column (per-run constants, or an override naming a new argument): rows are appended but the column is silently dropped, outputs no longer match the recorded arguments"),
 "S-C16-6": ("grow() opens the result file in append mode before evaluating ('fail early if it cannot be written')",
             "a job pre-empted (killed) while evaluating, then the work list derived from crop state (single mode / xyzpy-grow re-submitted, or the script regenerated): the empty placeholder counts as a finished batch, it is never grown, reap fails with EOFError"),
 "S-C01-7": ("combo_runner_core split path: ndarray results are unzipped with np.moveaxis(np.stack(results), -1, 0) - the wrong axis for results with ndim >= 2",
             "split=True with a function returning a 2-d ndarray: output j holds column j instead of row j of every combination's result"),
 "S-C04-7": ("Crop.sow_combos records the sorted combos in the settings file but hands the unsorted ones to the Sower",
             "sow_combos with at least two multi-valued arguments not given in alphabetical order: values permuted over the grid, silently"),
 "S-C05-7": ("combo_runner_core builds case_values from c.values() instead of c[a] for the first case's argument names",
             "harvest_cases with dict cases of which a later one lists its keys in another order than the first: the function is called with swapped arguments, the value lands at an unrequested coordinate"),
 "S-C06-7": ("Crop.save_info sorts combos by argument name before writing the settings file",
             "sow_cases(..., combos=C) on a farmer crop with C not in alphabetical order and two multi-valued arguments: reaped values attached to wrong labels"),
 "S-C08-7": ("Crop.choose_batch_settings re-derives batchsize and remainder with divmod(n, num_batches) whenever both are set",
             "a crop sown with batchsize= (greedy layout b, b, ..., n % b) re-sown with the same arguments: batches are re-cut evenly, kept results no longer match their batches, check_bad deletes good results"),
 "S-C09-7": ("nan_like_result: single ndarray results get np.full_like(res, nan), which keeps the dtype",
             "partial reap of a crop whose function returns an integer (or bool) ndarray: missing positions hold -9223372036854775808 / True instead of a null placeholder"),
 "S-C10-7": ("write_to_disk: os.replace inside the `with open(tmp)` block (rename before flush/close) - the edit of S-C08-5 / S-C11-5b, written against C10",
             "kill between the rename and the close of the settings file or the last batch file during sowing: a 0-byte file under its final name; every Crop() on the location raises EOFError, the re-sow cannot start"),
 "S-C11-7": ("grow() 'checkpoints' a long batch: after every 100 results it writes the partial result tuple under the final result name (atomically)",
             "a batch of more than 100 cases: a waiting reaper / progress query between a checkpoint and the final write uses a complete-looking but short result"),
 "S-C12-7": ("Harvester.add_ds default policy: a 'disjoint coordinates' fast path (combine_first, no conflict check) guarded by .all() where .any() was meant",
             "harvester reap over existing data that conflicts on an overlap while the crop also has coordinates the existing data lacks: no MergeError, old values win, the crop is deleted"),
 "S-C15-7": ("Crop.sow_samples sorts the argument names but not the value tuples",
             "a sow_samples run whose choices are not listed in alphabetical order: values drawn for one argument are passed and recorded under another"),
 "S-C16-7": ("gen_cluster_script wraps batch_ids that are neither list nor tuple into a one-element tuple",
             "explicit batch_ids given as another iterable, e.g. range(2, 4): header range 1-1, the task calls grow(range(2, 4)) and fails, exit status 0"),
 "S-C01-8": ("parse_combos copies each value list through np.asarray(vals).tolist()",
             "an argument whose own values mix types ([1, 'x', 2.5]): numpy promotes them to one dtype, the function is called with '1' instead of 1"),
 "S-C04-8": ("Crop.sow_cases peeks at the first case with next(iter(cases)) for an early length check",
             "cases given as a one-shot iterator (zip, generator, map): the first case is consumed and never sown"),
 "S-C05-8": ("Harvester.add_ds skips save_full_ds when the merged dataset is identical to the in-memory one",
             "un-synced harvests first (no data file yet), then a synced harvest that adds nothing new: nothing is ever written"),
 "S-C06-8": ("Crop.save_function_to_disk pickles inspect.unwrap(fn)",
             "a runner whose function is a functools.wraps wrapper that changes results: batches are grown with the undecorated function"),
 "S-C08-8": ("Crop.grow validates its ids with all(isinstance(i, Integral) for i in batch_ids) before using them",
             "ids given as a one-shot iterator (generator, reversed(...), map(...)): the check exhausts it, the call returns normally with nothing grown"),
 "S-C09-8": ("Reaper _load: 'try to read, fall back to the placeholder' catches OSError where FileNotFoundError was meant",
             "partial reap (allow_incomplete, no wait) with a transient I/O error on a finished batch's result: that batch is silently shown as missing"),
 "S-C10-8": ("Harvester.save_full_ds writes engine='joblib' files directly under the final name (like zarr)",
             "joblib-engine harvester crop killed while the data file is being written: earlier harvests lost, every later load raises"),
 "S-C11-8": ("grow() unlinks an existing result of its batch before evaluating ('drop the outdated result when re-growing')",
             "the same batch grown twice, the second grower starting after the first finished, while reap(wait=True) is between exists() and open() of that result"),
 "S-C12-8": ("Harvester.load_full_ds re-reads the file only when its mtime differs from the remembered one",
             "another writer rewrites the data file within the same timestamp tick while this Harvester object holds an older copy; its next reap merges with the stale copy: conflict not raised / other writer's data overwritten"),
 "S-C15-8": ("Sampler.gen_cases_fnargs: fast path for range choices draws np.random.randint(start, stop), ignoring the step",
             "choices given as a range with step > 1: most drawn values are not among the choices"),
 "S-C16-8": ("grow() returns early ('already grown') when the batch's result file exists",
             "explicitly requested batch ids whose results already exist: the job evaluates nothing, the old results stay"),
 "S-C01-9": ("combo_runner_core expands the grid through an lru_cache'd helper keyed on the value tuples (hash / ==)",
             "two sweeps in one process whose grids are equal but differently typed ([1, 2] then [1.0, 2.0]): the second is run with the first one's objects - the function receives int where float was given"),
 "S-C04-9": ("Sower.__call__ replaces numpy-scalar keyword arguments by .item()",
             "values of a non-default numpy dtype (float32, uint8, ...) whose arithmetic differs from the builtin's: grown batches compute with builtin types, a direct sweep with the numpy scalars"),
 "S-C05-9": ("Harvester.add_ds default policy swallows a MergeError when old-first and new-first results are np.allclose",
             "a conflicting re-harvest whose values differ by less than rtol 1e-5: merged silently, new values dropped"),
 "S-C06-9": ("Crop.reap_harvest passes the dataset of a case-sown crop through trimna before add_ds",
             "a case whose outputs are all nan and whose coordinate value no other case shares: that label is missing from the harvester's file (present after a direct harvest_cases)"),
 "S-C08-9": ("grow(): results_it = map(lambda case: fn(**case), cases) instead of a generator expression",
             "a function that fails with StopIteration: map lets it end the loop, the short result tuple is published and the batch counts as finished"),
 "S-C09-9": ("Crop.finished_results(): the listing of results/ is cached on the Crop object and refreshed only when the directory's mtime changed; Reaper._load uses it",
             "the same Crop object partially reaps twice and a batch finishes in between within one timestamp tick: the new batch is shown as missing"),
 "S-C10-9": ("sow_combos(shuffle=True) draws a fresh random seed at every sow (stored in the settings, reused by reap)",
             "reap killed inside delete_all after batches/ went and before results/: the recovery re-sows with another seed, kept results no longer match, the reap returns values at wrong coordinates"),
 "S-C11-9": ("write_to_disk sweeps '<final>.*.tmp' files after its own rename",
             "the same batch grown by two growers: one deletes the other's temporary, that grower fails with FileNotFoundError and its remaining batches are never grown"),
 "S-C12-9": ("Harvester.add_ds default policy snaps new float values to stored ones where np.isclose(rtol=1e-12) - leaving the default atol=1e-8 in force",
             "a harvester reap whose values conflict with stored ones by less than 1e-8 + 1e-12*|old|: no MergeError, old values kept, crop deleted"),
 "S-C15-9": ("Crop.load_info caches the settings file on the Crop object for ever",
             "the same Crop object used for a second sow_samples / grow / reap cycle: the reap pairs the new results with the first cycle's cached cases"),
 "S-C16-9": ("_SLURM_HEADER gains 'mkdir -p <outdir>' and an --output directive before {header_options}",
             "slurm array scripts: sbatch stops reading #SBATCH lines at the first command, so the --array directive after it is a plain comment - bash with a stub task id still works"),
 "S-C01-10": ("check_for_duplicates also rejects floats that agree to 15 significant digits",
              "an argument whose values contain two distinct floats 1-2 ulp apart ([0.3, 0.1 + 0.2]): the whole sweep is refused with XYZError"),
 "S-C04-10": ("Reaper.__call__ uses None as the 'ran out of results' sentinel",
              "a function that returns None for some setting: every full reap raises XYZError instead of returning None there"),
 "S-C05-10": ("parse_cases wraps bare values per case and no longer special-cases str",
              "bare string cases of length != 1 on a one-argument runner: harvest_cases(['wxyz']) computes and stores fn('w') at 'w'"),
 "S-C06-10": ("Crop.sow_combos: `if shuffle:` instead of `if shuffle is not None:` before self.shuffle = shuffle",
              "a default (falsy) shuffle at sow on a crop object whose .shuffle is truthy (xyzpy.Crop(farmer=..., shuffle=5), or a second cycle after a shuffled one): sown in grid order, recorded as shuffled"),
 "S-C08-10": ("Crop._sync_info_from_disk copies batchsize / num_batches from the settings file only when the object has none",
              "a crop sown with num_batches larger than the number of cases (capped on disk), re-opened with the same explicit argument: missing_results() lists phantom batches"),
 "S-C09-10": ("Crop._sync_info_from_disk sets self.shuffle and the reap methods use it - but the allow_incomplete path never syncs",
              "partial reap through a Crop object that was made before the crop was sown elsewhere: stale shuffle, values and placeholders at wrong positions"),
 "S-C10-10": ("Sower.save_batch skips writing a batch file whose result already exists",
              "reap killed in delete_all after a batch file went and before the same-numbered result: no re-sow ever restores the batch file, check_bad raises FileNotFoundError"),
 "S-C11-10": ("write_to_disk takes the temporary name's unique part from the global random generator",
              "a swept function that seeds the global generator from its arguments, the same batch grown twice at once: both writers use one temporary name"),
 "S-C12-10": ("results_to_ds: failing to record a dimension-naming constant as a coordinate only warns",
              "a stored output description whose constant for an internal dimension has the wrong length: the reap returns (and a harvester saves) a dataset without that coordinate, the crop is deleted"),
 "S-C15-10": ("Sampler.gen_cases_fnargs runs the per-run override through parse_combos (no duplicate values allowed)",
              "a per-run combos override whose choice list repeats a value ([2, 5, 2]): XYZError, 0 rows appended"),
 "S-C16-10": ("gen_cluster_script, single mode: explicit batch_ids equal to (1..num_batches) are 'simplified' to crop.missing_results()",
              "single-mode script for all batches in ascending order while some already have results: those are not re-grown"),
 "S-C01-11": ("combo_runner_core reduces an int shuffle seed modulo 2**32 and re-binds `shuffle` to the result",
              "an int seed that is a non-zero multiple of 2**32: settings are shuffled but the re-sort is skipped, results in wrong slots"),
 "S-C04-11": ("grow() loads the crop's function through an lru_cache keyed on the function file's path",
              "within one process, a crop at the same name and directory sown again with another function after the first was grown: the second crop is evaluated with the first function"),
 "S-C05-11": ("Harvester.add_ds casts a merged float variable back to the stored integer dtype when it has no missing values",
              "all-integer results on a complete grid, then a harvest contributing a non-integer value that completes the grid again: 10.5 is stored as 10"),
 "S-C06-11": ("Crop.load_info caches the settings on the Crop object and never invalidates them",
              "the same Crop object (any farmer) sown a second time with other combos after a complete first cycle: the second reap labels the new results with the first sow's grid"),
 "S-C08-11": ("sow_combos / sow_cases wipe all results when the num_batches= they are given differs from the crop's (capped) number",
              "num_batches larger than the number of cases, some batches grown, identical re-sow: every result deleted although the batch count is unchanged"),
 "S-C09-11": ("Crop.all_nan_result memoised in a module-level dict keyed on the crop's location",
              "in one process, a crop partially reaped, later another crop with another result structure sown at the same name and directory and partially reaped: placeholders of the first crop's shape"),
 "S-C10-11": ("Harvester.add_ds re-loads the data file only when nothing is held in memory (the edit of S-C05-3 / S-C06-3, written against C10)",
              "a harvester holding data when its crop is sown, more data merged into the file afterwards, the driver killed, recovery reaps through the crop rebuilt from disk: the pickled stale snapshot overwrites what was merged in between"),
 "S-C11-11": ("write_to_disk: if os.replace fails and the final file exists, fall back to copyfile onto it",
              "the same batch grown twice, the second grower's rename fails with an OSError, a reader arrives while the in-place copy is under way: empty / partial result under the final name"),
 "S-C12-11": ("Reaper._load treats an existing zero-byte result file like a missing batch (placeholder)",
              "allow_incomplete reap with an empty result file that is not the first one listed: no error, the batch silently becomes nan, with clean_up=True the crop is deleted"),
 "S-C15-11": ("Crop.reap_samples skips add_df when the table's last len(df) rows equal the reaped frame",
              "a crop run whose reaped rows are identical to the last n rows already in the table: 0 rows appended instead of n"),
 "S-C16-11": ("gen_cluster_script raises in array mode when crop.is_ready_to_reap()",
              "explicit batch_ids on a fully grown (not yet reaped) crop, array mode: XYZError instead of a script that re-grows those ids"),
 "S-C01-12": ("combo_runner_core drops constants whose value is None ('unset constants fall back to the function's defaults')",
              "a constant given as None: it is not passed, every slot holds the value computed with the function's default (or TypeError without a default)"),
 "S-C04-12": ("Crop.sow_cases re-keys every case dict with the first case's key order, by position",
              "dict cases of which one lists its keys in another order than the first: grown with swapped arguments"),
 "S-C05-12": ("save_merge_ds looks for the existing file with the default engine's extension",
              "save_merge_ds(ds, name_without_extension, engine='joblib') on an existing name.dmp: the old dataset is treated as absent and overwritten"),
 "S-C06-12": ("Crop.parse_constants fills in stored runner constants / resources wherever the sow-time value `is None`",
              "a sow-time constant that is None and shadows a stored non-None runner constant: batches are grown with the stored value, a direct run with None"),
 "S-C08-12": ("Crop.missing_results lists results/ once and takes the id from any name starting with 'xyz-result-' (suffix unchecked)",
              "a left-over or in-flight temporary xyz-result-i.jbdmp.<uuid>.tmp without the result itself: batch i is not reported missing, grow_missing skips it"),
 "S-C09-12": ("Reaper._load parses the batch number with re.search(r'-(\\d+)\\.', full_path)",
              "partial reap of a crop whose location contains '-<digits>.' before the file name (name 'sim-1.5') and whose batches differ in length: XYZError / StopIteration"),
 "S-C10-12": ("Crop._sync_info_from_disk keeps a batchsize / num_batches given to the constructor over what was sown (the edit of S-C08-10, written against C10)",
              "num_batches larger than the number of cases, kill during growing, recovery through a fresh Crop built with the original arguments: grow_missing looks for phantom batches"),
 "S-C11-12": ("grow() 'recovers' a non-empty temporary of its batch by renaming it into place and returning",
              "the same batch grown twice at once with results larger than the write buffer: the second grower publishes the first one's partly written temporary"),
 "S-C12-12": ("Harvester.add_ds returns early when the new dataset holds no non-null value",
              "a harvester crop whose function returned nan for every case: nothing is merged or saved, the crop is deleted"),
 "S-C15-12": ("Sampler.add_df drops all-NA columns from both frames before concatenating",
              "second or later run where every accumulated and every new row is nan in one column: the column disappears from the table"),
 "S-C16-12": ("Crop.missing_results memoised on the object, keyed on (num_batches, number of result files), never invalidated",
              "one Crop object: query, then reap / re-sow / grow another batch (same count), then gen_cluster_script(array, batch_ids=None): the script carries the stale ids"),
}
rows = collections.defaultdict(dict)
own = {}
for name in ("RESULTS.tsv", "RESULTS_own.tsv"):  # the own-check cells of the final harness win
    pth = os.path.join(V, name)
    if not os.path.exists(pth):
        continue
    for line in open(pth):
        f = line.rstrip("\n").split("\t")
        if len(f) >= 3 and f[2] != "":
            if f[0] in DESC:
                rows[f[0]][f[1]] = (int(f[2]), f[3] if len(f) > 3 else "")
            if name == "RESULTS_own.tsv":
                own[f[0]] = {"property": f[1], "exit": int(f[2]), "signature": f[3] if len(f) > 3 else ""}
# rounds 1-3 keep their full-matrix meta.json; record the re-run of their own check
import glob
for mp in glob.glob(os.path.join(V, "S-*", "meta.json")):
    m = json.load(open(mp))
    if m["id"] not in DESC and m["id"] in own:
        m["own_check_on_final_harness"] = own[m["id"]]
        json.dump(m, open(mp, "w"), indent=1)
extra = {}
p = os.path.join(V, "RESULTS_round4_extra.json")
if os.path.exists(p):
    extra = json.load(open(p))
for sid, (change, needs) in DESC.items():
    prop = sid.split("-")[1]
    meta = {
        "id": sid, "property": prop, "round": int("".join(ch for ch in sid.split("-")[2] if ch.isdigit())),
        "origin": ("independent sub-agent given only the property text, the ideas used in rounds 1-3, a request to "
                   "make the change manifest only near the upper edge of the quantified ranges or under a rare "
                   "combination, and a scratch worktree of /repo (no access to /verif)") if sid.split("-")[2] == "4" else
                  ("independent sub-agent given only the property text, the ideas used in rounds 1-5, a request for a "
                   "change that leaves the simplest straight-line use correct and breaks the property only under one "
                   "completion order / grow order / session pattern / scheduler behaviour (with a focus area), and a "
                   "scratch worktree of /repo (no access to /verif)") if sid.split("-")[2] == "6" else
                  ("independent sub-agent given only the property text, all ideas used in rounds 1-6 and the instruction "
                   "'the hard round: the subtlest violation you can construct that is still clearly inside the property' "
                   "(one data type or shape, a sequence of >= 3 calls, two rarely combined options, an arithmetic "
                   "relation between sizes, dictionary / listing order, a plausible-looking wrong result), and a "
                   "scratch worktree of /repo (no access to /verif)") if sid.split("-")[2] in ("7", "8", "9", "10", "11", "12") else
                  ("independent sub-agent given only the property text, the ideas used in rounds 1-4, a request for a "
                   "change that leaves every sequential fault-free use correct and breaks the property only in one "
                   "crash window / interleaving / I-O error (with a focus area), and a scratch worktree of /repo "
                   "(no access to /verif)"),
        "change": change, "needs_to_manifest": needs,
        "confirmed_by_me": {
            "demo_with_change": "exit 1", "demo_without_change": "exit 0",
            "existing_tests_with_change": "tests/test_gen tests/test_manage.py tests/test_utils.py: 1 failed "
                "(pre-existing TestBenchmarker::test_basic), 241 passed, 12 skipped - identical to the unmodified tree",
            "command": "/verif/scratch/verify_seeded{}.sh; worktree removed afterwards".format("".join(ch for ch in sid.split("-")[2] if ch.isdigit()))},
        "checks_run": "tools/final_matrix.sh: the patch applied to a scratch copy of /repo/xyzpy (XSIM_REPO), "
                      "./check <its own property> quick (seeded/RESULTS_own.tsv); with FULL=1 every claimed check "
                      "(seeded/RESULTS.tsv)",
        "detected_by": {p_: s for p_, (ec, s) in sorted(rows[sid].items()) if ec == 1},
        "exit_codes": {p_: ec for p_, (ec, s) in sorted(rows[sid].items())},
    }
    if sid in extra:
        meta["notes"] = extra[sid]
    json.dump(meta, open(os.path.join(V, sid, "meta.json"), "w"), indent=1)
    print(sid, meta["detected_by"])
