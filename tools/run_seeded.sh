#!/bin/bash
# For each /verif/seeded/<id>/patch.diff: apply it to /repo (working tree only), run every
# claimed property's quick check with evidence/replays redirected to a scratch dir, undo it.
# Writes /verif/seeded/RESULTS.tsv :  seeded-id <tab> property <tab> exit <tab> first violation signature
cd /verif || exit 2
out=${XSIM_SEEDED_OUT:-/verif/seeded/RESULTS.tsv}
only="$1"
[ -z "$only" ] && : > $out
props="C01 C04 C05 C06 C08 C09 C10 C11 C12 C15 C16"
[ -n "$2" ] && props="$2"
for d in /verif/seeded/S-*; do
  id=$(basename $d)
  [ -n "$only" ] && [ "$only" != "$id" ] && continue
  if ! git -C /repo diff --quiet; then echo "/repo working tree not clean" >&2; exit 2; fi
  git -C /repo apply $d/patch.diff || { echo "$id: patch does not apply" >&2; continue; }
  scratch=$(mktemp -d /dev/shm/xsim-seeded-XXXXXX)
  for p in $props; do
    XSIM_EVIDENCE_DIR=$scratch/ev XSIM_REPLAY_DIR=$scratch/rp XSIM_SHRINK_EXECS=20 ./check $p quick > $scratch/$p.log 2>&1
    ec=$?
    sig=$(grep -m1 "^violation:" $scratch/$p.log | sed 's/^violation: //; s/ ::.*//')
    printf "%s\t%s\t%s\t%s\n" "$id" "$p" "$ec" "$sig" | tee -a $out
  done
  git -C /repo checkout -- .
  rm -rf $scratch
done
