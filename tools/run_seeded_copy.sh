#!/bin/bash
# Like run_seeded.sh but leaves /repo untouched: the patch is applied to a scratch copy of
# /repo/xyzpy and the checks are pointed at it with XSIM_REPO (use while something else,
# e.g. a soak run, is using /repo).  Appends to /verif/seeded/RESULTS.tsv.
here="$(cd "$(dirname "${BASH_SOURCE[0]}")/.." && pwd)"   # works from a snapshot copy of /verif too
cd "$here" || exit 2
out=${XSIM_SEEDED_OUT:-$here/seeded/RESULTS.tsv}
pattern="$1"; props="${2:-C01 C04 C05 C06 C08 C09 C10 C11 C12 C15 C16}"
for d in $here/seeded/$pattern; do
  id=$(basename $d)
  scratch=$(mktemp -d /dev/shm/xsim-seededc-XXXXXX)
  cp -r /repo/xyzpy $scratch/xyzpy
  patch -p1 -s -d $scratch < $d/patch.diff || { echo "$id: patch failed"; rm -rf $scratch; continue; }
  for p in $props; do
    XSIM_REPO=$scratch XSIM_EVIDENCE_DIR=$scratch/ev XSIM_REPLAY_DIR=$scratch/rp XSIM_SHRINK_EXECS=20 ./check $p quick > $scratch/$p.log 2>&1
    ec=$?
    sig=$(grep -m1 "^violation:" $scratch/$p.log | sed 's/^violation: //; s/ ::.*//')
    [ "$ec" = "2" ] && tail -5 $scratch/$p.log
    printf "%s\t%s\t%s\t%s\n" "$id" "$p" "$ec" "$sig" | tee -a $out
  done
  rm -rf $scratch
done
