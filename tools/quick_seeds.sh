#!/bin/bash
# Run every claimed property's quick check under several root seeds with evidence and
# replays redirected (the committed evidence stays the one of VERIF_SEED=0).
# Usage: tools/quick_seeds.sh "1 2 3 4 5"   -> /verif/quick_seeds_report.tsv
cd /verif || exit 2
seeds="${1:-1 2 3 4 5}"
out=/verif/quick_seeds_report.tsv
: > $out
for s in $seeds; do
  for p in C01 C04 C05 C06 C08 C09 C10 C11 C12 C15 C16; do
    d=$(mktemp -d /dev/shm/xsim-qs-XXXXXX)
    VERIF_SEED=$s XSIM_EVIDENCE_DIR=$d/ev XSIM_REPLAY_DIR=$d/rp ./check $p quick > $d/log 2>&1
    ec=$?
    nk=$(grep -c "^KNOWN-FINDING" $d/log)
    printf "seed=%s\t%s\texit=%s\tknown_findings=%s\t%s\n" "$s" "$p" "$ec" "$nk" "$(grep -m1 '^VIOLATION\|^HARNESS' $d/log | cut -c1-120)" | tee -a $out
    rm -rf $d
  done
done
