#!/usr/bin/env python3
"""Markdown table of the seeded changes (from /verif/seeded/S-*/meta.json) for DESIGN.md section 11."""
import json, glob, os, sys
rounds = set(sys.argv[1:]) or None
FULL = not (rounds and all(int(r) >= 4 for r in rounds))  # rounds 1-3 have the full matrix
print("| id | change | caught by its own property's check (first signature) |" + (" also caught by |" if FULL else ""))
print("|---|---|---|" + ("---|" if FULL else ""))
n = own = 0
for mp in sorted(glob.glob("/verif/seeded/S-*/meta.json")):
    m = json.load(open(mp))
    if rounds and str(m.get("round", 1)) not in rounds:
        continue
    n += 1
    det = m.get("detected_by", {})
    p = m["property"]
    if p in det:
        own += 1
        first = "**{}** `{}`".format(p, det[p])
    else:
        first = "not by {}".format(p) + (" quick" if m.get("notes") else "")
    others = ", ".join(k for k in sorted(det) if k != p) or "-"
    if len(m.get("exit_codes", {})) <= 1 and m.get("round", 1) >= 4:
        others = "(own check only re-run)" if others == "-" else others
    if FULL:
        print("| {} | {} | {} | {} |".format(m["id"], m["change"][:150].replace("|", "/"), first, others))
    else:
        print("| {} | {} | {} |".format(m["id"], m["change"][:170].replace("|", "/"), first))
print()
print("{} of {} caught by the check of their own property".format(own, n))
