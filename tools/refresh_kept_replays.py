#!/usr/bin/env python3
"""After the harness or /repo changed: re-create the replay files that known_findings.json
references.  Run the relevant checks first (./check C06 quick; ./check C10 quick;
XSIM_START=24484 XSIM_RUNS=1 ./check C10 quick); this copies, for every listed finding, the
newest replay in /verif/replays/<prop>/ whose recorded signature matches, and verifies it."""
import os, sys, json, glob, shutil, subprocess
V = os.path.dirname(os.path.dirname(os.path.abspath(__file__)))
k = json.load(open(os.path.join(V, "known_findings.json")))
bad = 0
for f in k["findings"]:
    cands = sorted(glob.glob(os.path.join(V, "replays", f["property"], "*.json")), key=os.path.getmtime, reverse=True)
    hit = None
    for c in cands:
        try:
            r = json.load(open(c))
        except Exception:
            continue
        if (r.get("expected_violation") or {}).get("sig") == f["signature"]:
            hit = c
            break
    if hit is None:
        print("no fresh replay for", f["signature"]); bad += 1; continue
    shutil.copy(hit, f["replay"])
    cp = subprocess.run([os.path.join(V, "check"), "--replay", f["replay"]], capture_output=True, text=True)
    ok = ("REPRODUCED sig=" + f["signature"]) in cp.stdout
    print(os.path.basename(f["replay"]), "<-", os.path.basename(hit), "reproduces" if ok else "DOES NOT REPRODUCE")
    bad += 0 if ok else 1
sys.exit(1 if bad else 0)
