#!/usr/bin/env python3
"""Regenerate /verif/MANIFEST.json from xsim.registry (run with any python3)."""
import os, sys, json
here = os.path.dirname(os.path.dirname(os.path.abspath(__file__)))
sys.path.insert(0, here)
from xsim import registry

NA = registry.NOT_APPLICABLE
checks = []
for pid, spec in sorted(registry.PROPS.items()):
    checks.append({
        "property_id": pid,
        "quick_cmd": "./check {} quick".format(pid),
        "thorough_cmd": "./check {} thorough".format(pid),
        "evidence_file": "/verif/evidence/{}.json".format(pid),
        "replay_cmd_template": "./check --replay {path}",
        "engine": "xsim",
        "level_claimed": {"category": spec["level"], "text": spec["level_text"],
                          "design_ref": spec.get("design_ref", "DESIGN.md section 3")},
        "level_note": spec["level_note"],
        "technique": spec["technique"],
    })
claimed = set(registry.PROPS)
na = [{"property_id": k, "reason": v} for k, v in sorted(NA.items()) if k not in claimed]
m = {
    "version": 1,
    "setup_cmd": "./check --setup",
    "hooks": {
        "guard": "XYZPY_VERIF",
        "enable": "no source hooks: every seam is reachable from outside (builtins.open / os.* / time.sleep "
                  "interposition filtered by path prefix and actor thread, executor= argument, rebinding of "
                  "get_reusable_executor in the two importing modules). ./check sets XYZPY_VERIF=1 only to "
                  "switch on the harness's own interposition layer; /repo reads no such variable.",
        "baseline_off_cmd": "cd /repo && /venv/bin/python -m pytest -ra -q -p no:cacheprovider --timeout=900 --continue-on-collection-errors",
        "source_commits": [],
        "add_only": True,
    },
    "engines": [{
        "name": "xsim", "path": "/verif/xsim",
        "serves_properties": sorted(claimed),
        "kind_free_text": "deterministic simulation with fault injection: one choice tape per run (seeded PRNG) "
                          "decides generated operations, actor scheduling, write splitting, kills, I/O errors, "
                          "listing order and executor completion order; oracles are harness-side reference models; "
                          "violations are tape-shrunk and replayed in a fresh interpreter",
    }],
    "checks": checks,
    "not_applicable": na,
    "notes": "VERIF_SEED (default 0) is the root of every derived seed. XSIM_RUNS / XSIM_WALL override budgets. "
             "Exit 0 held (KNOWN-FINDING lines possible), 1 violation, 2 harness error. "
             "Fixed defects are listed in known_findings.json under 'fixed' and suppress nothing.",
}
with open(os.path.join(here, "MANIFEST.json"), "w") as f:
    json.dump(m, f, indent=1)
print("wrote MANIFEST.json with", len(checks), "checks,", len(na), "not applicable")
