#!/usr/bin/env python3
"""Markdown table of ./check --mutants results (mutants/RESULTS.json) for DESIGN.md section 10."""
import json
d = json.load(open("/verif/mutants/RESULTS.json"))
print("| prop | mutant | outcome | runs | signatures |")
print("|---|---|---|---|---|")
det = ctl = ndet = nctl = 0
for key in sorted(d):
    r = d[key]
    prop, name = key.split("/", 1)
    control = name.startswith("control-")
    detected = bool(r.get("detected", r.get("exit") == 1))
    if control:
        nctl += 1
        ctl += 0 if detected else 1
        outcome = "quiet (control)" if not detected else "**ALARM on control**"
    else:
        ndet += 1
        det += 1 if detected else 0
        outcome = "detected" if detected else "**missed**"
    runs = "{}/{}".format(r.get("violating_runs", "?"), r.get("runs", "?"))
    sigs = "; ".join((r.get("signatures") or [])[:2])[:160]
    print("| {} | `{}` | {} | {} | {} |".format(prop, name, outcome, runs, sigs))
print()
print("{} of {} breaking mutants detected, {} of {} controls quiet".format(det, ndet, ctl, nctl))
