#!/usr/bin/env python3
"""Generate /verif/mutants/<PROP>/<name>.patch from (file, old, new) edits
against /repo's current working tree.  Each mutant is a realistic single-site
change that breaks one property.  Run again whenever /repo changes."""
import os
import sys
import difflib

REPO = os.environ.get("XSIM_REPO_SRC", "/repo")
OUT = os.path.join(os.path.dirname(os.path.dirname(os.path.abspath(__file__))), "mutants")

CROP = "xyzpy/gen/cropping.py"
COMBO = "xyzpy/gen/combo_runner.py"
FARM = "xyzpy/gen/farming.py"
CLI = "xyzpy/gen/xyzpy_grow_cli.py"
MANAGE = "xyzpy/manage.py"

M = []


def mut(prop, name, file, old, new, note=""):
    M.append((prop, name, file, old, new, note))


# ----------------------------------------------------------------------- C01
mut("C01", "results-in-completion-order", COMBO,
    """        for kws, future in zip(settings, futures):
            if verbosity >= 2:
                pbar.set_description(str(kws))
            results_linear.append(_get_result(future))
            pbar.update()
""",
    """        # collect whatever has finished first
        ordered = sorted(futures, key=lambda f: not (hasattr(f, "done") and f.done()))
        for kws, future in zip(settings, ordered):
            if verbosity >= 2:
                pbar.set_description(str(kws))
            results_linear.append(_get_result(future))
            pbar.update()
""", "needs a submit-style pool where a later task finishes before an earlier one is awaited")
mut("C01", "shuffle-not-undone", COMBO,
    "        enum_results = sorted(zip(enum, results_linear), key=lambda x: x[0])\n        _, results_linear = zip(*enum_results)\n",
    "        enum_results = list(zip(enum, results_linear))\n        _, results_linear = zip(*enum_results)\n")
mut("C01", "mppool-drops-kwargs", COMBO,
    "        return executor.apply_async(fn, args, kwds)\n",
    "        return executor.apply_async(fn, args)\n", "only the multiprocessing.Pool branch")
mut("C01", "num_workers-ignored", COMBO,
    "        executor = get_reusable_executor(num_workers)\n",
    "        executor = get_reusable_executor()\n")
mut("C01", "parallel-int-not-workers", COMBO,
    "            num_workers = parallel\n",
    "            num_workers = None\n")
mut("C01", "unflatten-pops-first", COMBO,
    "        *all_combo_values, last = all_combo_values\n        for p in itertools.product(*all_combo_values):\n            # for each remaining combination, reduce last arg into tuple\n            store[p] = tuple(store.pop(p + (v,), all_nan) for v in last)\n",
    "        last, *all_combo_values = all_combo_values\n        for p in itertools.product(*all_combo_values):\n            # for each remaining combination, reduce last arg into tuple\n            store[p] = tuple(store.pop((v,) + p, all_nan) for v in last)\n")
# ----------------------------------------------------------------------- C04
mut("C04", "reaper-reads-in-glob-order", CROP,
    """        files = (
            os.path.join(self.crop.location, "results", RSLT_NM.format(i + 1))
            for i in range(num_batches)
        )
""",
    """        files = sorted(glob.glob(
            os.path.join(self.crop.location, "results", RSLT_NM.format("*"))
        )) or [
            os.path.join(self.crop.location, "results", RSLT_NM.format(i + 1))
            for i in range(num_batches)
        ]
""", "needs >= 10 batches (lexicographic order)")
mut("C04", "reap-shuffle-seed-off-by-one", CROP,
    """                constants={},
                shuffle=settings.get("shuffle", False),
            )

        if clean_up:
            self.delete_all()

        return results
""",
    """                constants={},
                shuffle=(settings.get("shuffle", False)
                         and int(settings.get("shuffle", False)) + 1),
            )

        if clean_up:
            self.delete_all()

        return results
""")
mut("C04", "grow-evaluates-reversed", CROP,
    "        results_it = (fn(**case) for case in cases)\n",
    "        results_it = (fn(**case) for case in reversed(cases))\n")
mut("C04", "sow_cases-ignores-shuffle", CROP,
    "                shuffle=self.shuffle,\n                verbosity=verbosity,\n                parse=False,\n",
    "                verbosity=verbosity,\n                parse=False,\n", "reverts fix e86c129")
mut("C04", "parallel-grow-completion-order", CROP,
    "        results_it = (f.result() for f in fs)\n",
    "        results_it = (f.result() for f in sorted(fs, key=lambda f: not f.done()))\n",
    "needs grow(num_workers=...) with out-of-order completion")
mut("C04", "sower-drops-overfill-batch", CROP,
    "        if (exception_type is None) and self._batch_cases:\n            self.save_batch()\n",
    "        if (exception_type is None) and len(self._batch_cases) > 1:\n            self.save_batch()\n",
    "needs batchsize with a remainder of exactly one setting")
# ----------------------------------------------------------------------- C05
mut("C05", "overwrite-policies-swapped", FARM,
    "            if overwrite is True:\n                new_full_ds = new_ds.combine_first(self._full_ds)\n",
    "            if overwrite is False:\n                new_full_ds = new_ds.combine_first(self._full_ds)\n")
mut("C05", "no-reload-when-memory-present", FARM,
    "        if sync_with_disk:\n            self.load_full_ds(chunks=chunks, engine=engine)\n\n        if self._full_ds is None:\n            # No full ds yet",
    "        if sync_with_disk and self._full_ds is None:\n            self.load_full_ds(chunks=chunks, engine=engine)\n\n        if self._full_ds is None:\n            # No full ds yet",
    "a stale session overwrites what a bare-file merge / other session saved")
mut("C05", "extensionless-name-not-found", FARM,
    "        file_name = auto_add_extension(self.data_name, engine)\n\n        # Check file exists and can be written to\n",
    "        file_name = self.data_name\n\n        # Check file exists and can be written to\n", "reverts fix f17b6f6")
mut("C05", "save_merge-default-overrides", MANAGE,
    "        new_ds = xr.merge([old_ds, ds])\n",
    "        new_ds = xr.merge([old_ds, ds], compat='override')\n")
mut("C05", "drop_sel-not-saved", FARM,
    "        new_ds = self.full_ds.drop_sel(labels, errors=errors, **labels_kwargs)\n        if self.data_name is not None:\n            self.save_full_ds(new_ds, engine=engine)\n",
    "        new_ds = self.full_ds.drop_sel(labels, errors=errors, **labels_kwargs)\n        if self.data_name is None:\n            self.save_full_ds(new_ds, engine=engine)\n")
# ----------------------------------------------------------------------- C06
mut("C06", "crop-drops-runner-resources", CROP,
    "            constants = {**self.runner._resources, **constants}\n",
    "            pass\n")
mut("C06", "reap_runner-forgets-last_ds", CROP,
    "        else:\n            runner._last_ds = data\n",
    "        else:\n            pass\n")
mut("C06", "runner-attrs-not-passed", CROP,
    "            attrs=runner._attrs,\n            parse=False,\n",
    "            attrs={},\n            parse=False,\n")
mut("C06", "const-dims-as-attrs", CROP,
    "                constants=constants,\n                resources={},\n                attrs=attrs,\n",
    "                constants={},\n                resources={},\n                attrs={**constants, **attrs},\n",
    "reverts fix a24f7c3")
mut("C06", "reap_harvest-overwrite-not-forwarded", CROP,
    "            harvester.add_ds(ds, sync=sync, overwrite=overwrite)\n",
    "            harvester.add_ds(ds, sync=sync)\n", "needs a second crop into the same storage with a policy")
# ----------------------------------------------------------------------- C08
mut("C08", "partial-results-written-on-failure", CROP,
    """    results = []
    for i, r in enumerate(results_it):
        if (verbosity >= 2):
            results_it.set_description(f"{cases[i]}")
        results.append(r)

    if rank == 0:
        # only save to results file if the main worker
        write_to_disk(tuple(results), results_file)
""",
    """    results = []
    try:
        for i, r in enumerate(results_it):
            if (verbosity >= 2):
                results_it.set_description(f"{cases[i]}")
            results.append(r)
    finally:
        if rank == 0 and results:
            # only save to results file if the main worker
            write_to_disk(tuple(results), results_file)
""", "needs a function that raises after at least one setting of the batch succeeded")
mut("C08", "missing_results-skips-last", CROP,
    "        return tuple(filter(no_result_exists, range(1, self.num_batches + 1)))\n",
    "        return tuple(filter(no_result_exists, range(1, self.num_batches)))\n")
mut("C08", "ready-when-at-least", CROP,
    "        return self._num_results > 0 and (\n            self._num_results == self.num_sown_batches\n        )\n",
    "        return self._num_results > 0 and (\n            self._num_results >= self.num_sown_batches - 1\n        )\n")
mut("C08", "check_bad-does-not-delete", CROP,
    "                if delete_bad:\n                    os.remove(result_file)\n",
    "                if delete_bad and unloadable:\n                    os.remove(result_file)\n",
    "wrong-length results are reported but stay")
mut("C08", "resow-wipes-results", CROP,
    "        self.ensure_dirs_exists()\n        if self.save_fn:\n",
    "        if os.path.isdir(os.path.join(self.location, \"results\")):\n            shutil.rmtree(os.path.join(self.location, \"results\"))\n        self.ensure_dirs_exists()\n        if self.save_fn:\n")
mut("C11", "progress-counts-any-file", CROP,
    "                        glob.escape(self.location), \"results\", RSLT_NM.format(\"*\")\n                    )\n                )\n            )\n        else:\n            self._num_sown_batches = -1\n",
    "                        glob.escape(self.location), \"results\", \"xyz-*\"\n                    )\n                )\n            )\n        else:\n            self._num_sown_batches = -1\n",
    "temporary files of a write in progress / left by a kill are counted")
# ----------------------------------------------------------------------- C09
mut("C09", "placeholder-length-guessed", CROP,
    """                batch = read_from_disk(
                    os.path.join(crop.location, "batches", BTCH_NM.format(i))
                )
                res = (default_result,) * len(batch)
""",
    """                size = crop.batchsize + int(i < crop._batch_remainder)
                res = (default_result,) * size
""", "reverts fix 48599ac")
mut("C09", "incomplete-reap-cleans-up", CROP,
    "    if clean_up is None:\n        clean_up = not allow_incomplete\n\n    if allow_incomplete:\n",
    "    if clean_up is None:\n        clean_up = True\n\n    if allow_incomplete:\n")
mut("C09", "refusal-ignored", CROP,
    "    if not (allow_incomplete or wait or crop.is_ready_to_reap()):\n",
    "    if not (allow_incomplete or wait or crop.num_results > 0):\n")
mut("C09", "none-placeholder-means-no-default", CROP,
    "                (default_result is not _NO_DEFAULT)\n",
    "                (default_result is not _NO_DEFAULT and default_result is not None)\n",
    "reverts fix 3d51ede (bool / str results)")
mut("C09", "placeholder-from-last-batch-shape", CROP,
    "            reference_result = read_from_disk(result_files[0])[0]\n            self._all_nan_result = nan_like_result(reference_result)\n",
    "            reference_result = read_from_disk(result_files[0])[0]\n            self._all_nan_result = nan_like_result(reference_result)\n            if isinstance(self._all_nan_result, tuple) and len(self._all_nan_result) == 2:\n                self._all_nan_result = self._all_nan_result[0]\n",
    "two-output functions get a scalar placeholder")
# ----------------------------------------------------------------------- C10
mut("C10", "result-published-in-place", CROP,
    """    tmp_fname = "{}.{}.tmp".format(fname, uuid.uuid4().hex)
    with open(tmp_fname, "wb") as file:
        pickle.dump(obj, file)
    os.replace(tmp_fname, fname)
""",
    """    with open(fname, "wb") as file:
        pickle.dump(obj, file)
""", "reverts fix (atomic write_to_disk)")
mut("C10", "harvest-deletes-before-sync", CROP,
    """        if sync:
            harvester.add_ds(ds, sync=sync, overwrite=overwrite)

        # defer cleaning up until we have sucessfully synced new dataset
        if clean_up is None:
            clean_up = not allow_incomplete
        if clean_up:
            self.delete_all()
""",
    """        # clean up
        if clean_up is None:
            clean_up = not allow_incomplete
        if clean_up:
            self.delete_all()

        if sync:
            harvester.add_ds(ds, sync=sync, overwrite=overwrite)
""", "the v1.1.0 regression")
mut("C08", "check_bad-accepts-unloadable", CROP,
    "            if unloadable or (len(result) != len(batch)):\n",
    "            if (not unloadable) and (len(result) != len(batch)):\n")
mut("C10", "harvester-file-removed-then-rewritten", FARM,
    """        from ..manage import auto_add_extension
        file_name = auto_add_extension(self.data_name, engine)
        dirname, basename = os.path.split(file_name)
        tmp_name = os.path.join(dirname, '.tmp-' + basename)
        save_ds(self._full_ds, tmp_name, engine=engine)
        os.replace(tmp_name, file_name)
""",
    """        from ..manage import auto_add_extension
        file_name = auto_add_extension(self.data_name, engine)
        if os.path.exists(file_name):
            os.remove(file_name)
        save_ds(self._full_ds, self.data_name, engine=engine)
""", "reverts fix 786beb3")
mut("C10", "control-settings-written-before-function", CROP,
    "        self.ensure_dirs_exists()\n        if self.save_fn:\n            self.save_function_to_disk()\n        self.save_info(combos=combos, cases=cases, fn_args=fn_args)\n",
    "        self.ensure_dirs_exists()\n        self.save_info(combos=combos, cases=cases, fn_args=fn_args)\n        if self.save_fn:\n            self.save_function_to_disk()\n",
    "CONTROL (must stay quiet): a kill between the two leaves a prepared crop without its function, "
    "but the documented recovery re-sows after a killed sow, so C10 still holds")
# ----------------------------------------------------------------------- C11
mut("C11", "result-published-in-place", CROP,
    """    tmp_fname = "{}.{}.tmp".format(fname, uuid.uuid4().hex)
    with open(tmp_fname, "wb") as file:
        pickle.dump(obj, file)
    os.replace(tmp_fname, fname)
""",
    """    with open(fname, "wb") as file:
        pickle.dump(obj, file)
""", "reverts fix (atomic write_to_disk)")
mut("C11", "temp-name-matches-result-glob", CROP,
    "    tmp_fname = \"{}.{}.tmp\".format(fname, uuid.uuid4().hex)\n",
    "    head, ext = os.path.splitext(fname)\n    tmp_fname = \"{}-{}{}\".format(head, uuid.uuid4().hex, ext)\n",
    "progress queries count the temporary file")
mut("C11", "renamed-before-written", CROP,
    """    with open(tmp_fname, "wb") as file:
        pickle.dump(obj, file)
    os.replace(tmp_fname, fname)
""",
    """    with open(tmp_fname, "wb") as file:
        os.replace(tmp_fname, fname)
        pickle.dump(obj, file)
""")
mut("C11", "shared-temp-name", CROP,
    "    tmp_fname = \"{}.{}.tmp\".format(fname, uuid.uuid4().hex)\n",
    "    tmp_fname = \"{}.tmp\".format(fname)\n",
    "two growers of the same batch share one temporary file")
mut("C11", "reaper-never-sleeps-on-missing", CROP,
    "            while not os.path.exists(x):\n                time.sleep(0.2)\n",
    "            if not os.path.exists(x):\n                time.sleep(0.2)\n",
    "waits once only: fails when the result takes longer")
# ----------------------------------------------------------------------- C12
mut("C12", "harvest-deletes-before-sync", CROP,
    """        if sync:
            harvester.add_ds(ds, sync=sync, overwrite=overwrite)

        # defer cleaning up until we have sucessfully synced new dataset
        if clean_up is None:
            clean_up = not allow_incomplete
        if clean_up:
            self.delete_all()
""",
    """        # clean up
        if clean_up is None:
            clean_up = not allow_incomplete
        if clean_up:
            self.delete_all()

        if sync:
            harvester.add_ds(ds, sync=sync, overwrite=overwrite)
""")
mut("C12", "clean_up-default-always-true", CROP,
    "    if clean_up is None:\n        clean_up = not allow_incomplete\n\n    if allow_incomplete:\n",
    "    if clean_up is None:\n        clean_up = True\n\n    if allow_incomplete:\n")
mut("C12", "control-to_ds-deletes-inside-with", CROP,
    """                parse=parse,
                to_df=to_df,
            )

        if clean_up:
            self.delete_all()

        return data
""",
    """                parse=parse,
                to_df=to_df,
            )
            if clean_up:
                self.delete_all()

        return data
""", "CONTROL (must stay quiet): deleting inside the Reaper context still happens after the dataset was built")
mut("C12", "to_ds-deletes-before-labelling", CROP,
    """        with Reaper(
            self,
            num_batches=settings["num_batches"],
            wait=wait,
            default_result=default_result,
        ) as reap_fn:
            # the Reaper ignores""",
    """        if clean_up and not wait and not allow_incomplete:
            # results are small: read them all now and clean up early
            _cached = [read_from_disk(os.path.join(
                self.location, "results", RSLT_NM.format(i + 1)))
                for i in range(settings["num_batches"])]
            self.delete_all()
            os.makedirs(os.path.join(self.location, "results"))
            for i, r in enumerate(_cached):
                write_to_disk(r, os.path.join(
                    self.location, "results", RSLT_NM.format(i + 1)))

        with Reaper(
            self,
            num_batches=settings["num_batches"],
            wait=wait,
            default_result=default_result,
        ) as reap_fn:
            # the Reaper ignores""", "a wrong output description then finds batches and settings gone")
mut("C12", "sampler-crop-deleted-before-save", CROP,
    """            clean_up=False,
            allow_incomplete=allow_incomplete,
            to_df=True,
        )
""",
    """            clean_up=clean_up,
            allow_incomplete=allow_incomplete,
            to_df=True,
        )
""", "reverts fix 3973ad5")
mut("C12", "explicit-clean_up-false-ignored-by-harvest", CROP,
    "        # defer cleaning up until we have sucessfully synced new dataset\n        if clean_up is None:\n            clean_up = not allow_incomplete\n",
    "        # defer cleaning up until we have sucessfully synced new dataset\n        if not clean_up:\n            clean_up = not allow_incomplete\n")
# ----------------------------------------------------------------------- C15
mut("C15", "add_df-does-not-reload", FARM,
    "        if sync_with_disk:\n            self.load_full_df(engine=engine)\n\n        if self._full_df is None:\n",
    "        if sync_with_disk and self._full_df is None:\n            self.load_full_df(engine=engine)\n\n        if self._full_df is None:\n",
    "a stale session drops rows another process appended")
mut("C15", "reap_samples-appends-twice", CROP,
    "            sampler._last_df = df\n            sampler.add_df(df, sync=sync)\n",
    "            sampler._last_df = df\n            sampler.add_df(df, sync=sync)\n            if len(df) == 3:\n                sampler.add_df(df, sync=sync)\n",
    "only for runs of exactly 3 samples")
mut("C15", "control-cases-drawn-per-column", FARM,
    """        cases = tuple(
            tuple(
                v() if callable(v) else np.random.choice(v)
                for v in combos.values()
            ) for _ in range(n)
        )
""",
    """        cols = [[v() if callable(v) else np.random.choice(v) for _ in range(n)]
                for v in combos.values()]
        cols = [sorted(c, key=repr) for c in cols]
        cases = tuple(zip(*cols))
""", "CONTROL (must stay quiet): rows are still valid draws with correct outputs")
mut("C15", "overridden-combos-ignored", FARM,
    "        combos = {**self.default_combos, **combos}\n",
    "        combos = {**combos, **self.default_combos}\n")
mut("C15", "csv-saved-with-index", MANAGE,
    "        kwargs.setdefault('index', False)\n",
    "        kwargs.setdefault('index', True)\n", "an index column creeps into the table on every reload")
# ----------------------------------------------------------------------- C16
mut("C16", "sge-stray-bracket", CROP,
    "    \"    batch_ids = {batch_ids}\\n\"\n    \"    grow(batch_ids[$SGE_TASK_ID - 1], **grow_kwargs)\\n\"",
    "    \"    batch_ids = {batch_ids}]\\n\"\n    \"    grow(batch_ids[$SGE_TASK_ID - 1], **grow_kwargs)\\n\"",
    "reverts fix 2051aa0")
mut("C16", "partial-array-range-is-num_batches", CROP,
    "            opts[\"run_stop\"] = len(opts[\"batch_ids\"])\n",
    "            opts[\"run_stop\"] = crop.num_batches\n")
mut("C16", "slurm-index-not-shifted", CROP,
    "    \"    grow(batch_ids[$SLURM_ARRAY_TASK_ID - 1], **grow_kwargs)\\n\"",
    "    \"    grow(batch_ids[$SLURM_ARRAY_TASK_ID], **grow_kwargs)\\n\"")
mut("C16", "single-mode-ignores-explicit-ids", CROP,
    "        if batch_ids is None:\n            # grow all missing, but compute the list dynamically\n",
    "        if True:\n            # grow all missing, but compute the list dynamically\n")
mut("C16", "cli-grows-everything", CLI,
    "    crop.grow_missing(**grow_kwargs)\n",
    "    crop.grow(tuple(range(1, crop.num_batches + 1)), **grow_kwargs)\n")
mut("C16", "control-pbs-single-task-keeps-array", CROP,
    "    if (scheduler == \"pbs\") and len(opts[\"batch_ids\"]) == 1:\n",
    "    if (scheduler == \"pbs\") and len(opts[\"batch_ids\"]) == 0:\n",
    "CONTROL (must stay quiet): a one-task PBS array header '#PBS -J 1-1' is kept; the stub scheduler runs it fine")

# ---------------------------------------------------------------- more controls
# behaviour-preserving re-implementations: the checks must stay quiet on them
mut("C01", "control-collect-with-comprehension", COMBO,
    """        results_linear = []
        for kws, future in zip(settings, futures):
            if verbosity >= 2:
                pbar.set_description(str(kws))
            results_linear.append(_get_result(future))
            pbar.update()
        return results_linear
""",
    """        results_linear = [_get_result(future) for future in futures]
        pbar.update(len(results_linear))
        return results_linear
""", "CONTROL (must stay quiet): same order, collected with a comprehension")
mut("C04", "control-reaper-reads-eagerly", CROP,
    """        self.results = itertools.chain.from_iterable(
            map(wait_to_load if wait else _load, files)
        )
""",
    """        if wait:
            self.results = itertools.chain.from_iterable(map(wait_to_load, files))
        else:
            self.results = iter([r for x in files for r in _load(x)])
""", "CONTROL (must stay quiet): without wait all results are read up front")
mut("C08", "control-check_bad-loads-result-first", CROP,
    """            batch = read_from_disk(batch_file)

            try:
                result = read_from_disk(result_file)
                unloadable = False
            except Exception as e:
                unloadable = True
                err = e
""",
    """            try:
                result = read_from_disk(result_file)
                unloadable = False
            except Exception as e:
                unloadable = True
                err = e

            batch = read_from_disk(batch_file)
""", "CONTROL (must stay quiet): order of the two reads swapped")
mut("C11", "control-progress-by-listdir-fullmatch", CROP,
    """            self._num_results = len(
                glob.glob(
                    os.path.join(
                        glob.escape(self.location), "results", RSLT_NM.format("*")
                    )
                )
            )
""",
    """            rgx = re.compile(RSLT_NM.format(r"\\d+").replace(".", r"\\."))
            try:
                names = os.listdir(os.path.join(self.location, "results"))
            except FileNotFoundError:
                names = []
            self._num_results = sum(1 for nm in names if rgx.fullmatch(nm))
""", "CONTROL (must stay quiet): the correct version of seeded change S-C11-2")
mut("C10", "control-delete_all-renames-first", CROP,
    "        shutil.rmtree(self.location)\n",
    "        trash = \"{}.deleting-{}\".format(self.location, uuid.uuid4().hex)\n        os.rename(self.location, trash)\n        shutil.rmtree(trash)\n",
    "CONTROL (must stay quiet): the crop disappears atomically, then its files are removed")
mut("C12", "control-delete_all-renames-first", CROP,
    "        shutil.rmtree(self.location)\n",
    "        trash = \"{}.deleting-{}\".format(self.location, uuid.uuid4().hex)\n        os.rename(self.location, trash)\n        shutil.rmtree(trash)\n",
    "CONTROL (must stay quiet)")
mut("C10", "control-sow-writes-settings-last", CROP,
    """        self.choose_batch_settings(combos=combos, cases=cases)
        self.prepare(combos=combos, cases=cases)

        with Sower(self) as sow_fn:
            combo_runner_core(
                fn=sow_fn,
                combos=combos,
                cases=cases,
                constants=constants,
                shuffle=shuffle,
                verbosity=verbosity,
            )
""",
    """        self.choose_batch_settings(combos=combos, cases=cases)
        self.ensure_dirs_exists()
        if self.save_fn:
            self.save_function_to_disk()

        with Sower(self) as sow_fn:
            combo_runner_core(
                fn=sow_fn,
                combos=combos,
                cases=cases,
                constants=constants,
                shuffle=shuffle,
                verbosity=verbosity,
            )
        # publish the settings last: a crop is 'prepared' only once fully sown
        self.save_info(combos=combos, cases=cases)
""", "CONTROL (must stay quiet): sow_combos publishes the settings file after the batches")
mut("C05", "control-default-merge-via-xr.merge", FARM,
    """                new_full_ds = self._full_ds.merge(
                    new_ds, compat='no_conflicts')
""",
    """                new_full_ds = xr.merge(
                    [self._full_ds, new_ds], compat='no_conflicts', join='outer')
""", "CONTROL (must stay quiet): equivalent spelling of the default-policy merge")
mut("C16", "control-script-has-extra-comment", CROP,
    "    \"from xyzpy.gen.cropping import grow, Crop\\n\"\n",
    "    \"# generated by xyzpy\\n\"\n    \"from xyzpy.gen.cropping import grow, Crop\\n\"\n",
    "CONTROL (must stay quiet): an extra comment line in the embedded program")
mut("C15", "control-add_df-concat-then-reset", FARM,
    """            new_full_df = pd.concat([self._full_df, new_df],
                                    ignore_index=True, sort=True)
""",
    """            new_full_df = pd.concat([self._full_df, new_df], sort=True)
            new_full_df = new_full_df.reset_index(drop=True)
""", "CONTROL (must stay quiet): equivalent re-indexing")


def main():
    only = set(a.upper() for a in sys.argv[1:])
    n = 0
    for prop, name, file, old, new, note in M:
        if only and prop not in only:
            continue
        src = open(os.path.join(REPO, file)).read()
        if src.count(old) != 1:
            print("!! {}/{}: anchor found {} times in {}".format(prop, name, src.count(old), file))
            continue
        dst = src.replace(old, new)
        diff = "".join(difflib.unified_diff(
            src.splitlines(True), dst.splitlines(True), "a/" + file, "b/" + file))
        d = os.path.join(OUT, prop)
        os.makedirs(d, exist_ok=True)
        with open(os.path.join(d, name + ".patch"), "w") as f:
            f.write("# {}: {}\n# {}\n".format(prop, name, note or "breaks the property"))
            f.write(diff)
        n += 1
    print("wrote", n, "mutant patches under", OUT)


if __name__ == "__main__":
    main()
